"""C05 — removal never deletes content that other tracked paths still need.
proof (Props/C05.v over Repo/Ext.v) + correspondence repoextmodel (extracted model) vs the real xvc
binary on generated histories with shared content + an oracle written from the property text: the
referrers of every deleted object are recomputed from the store event logs by an independent replay,
the other paths must stay restorable, untracked targets must end as private writable regular files."""
from . import repo as R, repoext as X

THEOREMS = ["remove_respects_referrers", "others_stay_restorable", "untrack_materialises",
            "untrack_hardlink_refuted", "untrack_missing_panics_refuted",
            "remove_keeps_directories_readonly", "untrack_keeps_directories_readonly", "removal_leaves_directory_writable_refuted"]


def referrers(prev, addr):
    """tracked paths one of whose recorded versions (digest history from the content-digest event
    log, replayed by vlib/repo.py) is stored at the cache address `algo/hash/ext`"""
    algo, h, ext = addr.split("/", 2)
    d = "%s/%s" % (algo, h)
    return sorted(p for p, rec in prev["recs"].items() if R.ext_of(p) == ext and (rec[0] == d or d in rec[3]))


def judge(sc, j):
    it, prev, cur = sc.eff[j], sc.robs[j - 1], sc.robs[j]
    cmd, o = it[0], it[1]
    targets = X.match_targets(prev, it[2])
    tdirs = [d for d in prev["dirs"] if any(X.glob_hit(t, d, prev) for t in it[2])]
    force = cmd == "remove" and o.get("f")
    bad = []
    # -- objects ---------------------------------------------------------------------------------------
    for a in sorted(set(cur["objs"]) - set(prev["objs"])):
        bad.append(("%s created the cache object %s" % (cmd, a), None))
    for a, e in prev["objs"].items():
        c = cur["objs"].get(a)
        if c is not None and c[3] != e[3]:
            bad.append(("%s changed the bytes of object %s" % (cmd, a), None))
        if c is None and not force:
            others = [p for p in referrers(prev, a) if p not in targets]
            if others:
                bad.append(("%s %s deleted object %s, still needed by %s (current or earlier version)" % (cmd, " ".join(it[2]), a, ", ".join(others)), None))
    if not force:
        for p in prev["recs"]:
            if p not in targets:
                want = X.committed_bytes(prev, p)
                if want is not None and X.committed_bytes(cur, p) != want:
                    bad.append(("after %s %s the tracked path %s is no longer restorable" % (cmd, " ".join(it[2]), p), None))
    # -- untrack: the targets end as private, writable, regular files and are not tracked --------------------
    if cmd == "untrack":
        if cur["oc"] == "Panic":
            dangling = any(p in prev["ws"] and prev["ws"][p][2] == "!" for p in targets)
            if any(p not in prev["ws"] for p in targets):
                klass = "untrack-missing-panics"
            elif tdirs:
                klass = "untrack-directory-record-panics"
            elif dangling:
                return bad                     # an unreadable link is not 'present in the workspace'
            else:
                klass = None
            bad.append(("untrack %s panicked, nothing was untracked" % " ".join(it[2]), klass))
            return bad
        for p in targets:
            if p in cur["recs"]:
                bad.append(("untrack: %s is still tracked" % p, None))
            before = X.ws_bytes(prev, p)
            if before is None:
                continue
            e = cur["ws"].get(p)
            klass = "untrack-leaves-hardlink" if prev["ws"][p][0].startswith("H") else None
            if e is None:
                bad.append(("untrack: %s was in the workspace and is gone" % p, None)); continue
            if e[0] != "F":
                bad.append(("untrack: %s is not a private regular file afterwards (%s)" % (p, "hard link into the cache" if e[0].startswith("H") else "symlink"), klass))
            elif cur["nlink"].get(p, 1) != 1:
                bad.append(("untrack: %s still shares its inode with %d other name(s)" % (p, cur["nlink"][p] - 1), klass))
            if e[1] != "1":
                bad.append(("untrack: %s is not writable afterwards" % p, klass))
            if X.ws_bytes(cur, p) != before:
                kind, rec = prev["ws"][p][0], prev["recs"][p]
                stale = kind.startswith("L") and kind[1:] != "%s/%s" % (rec[0], R.ext_of(p))
                bad.append(("untrack: the bytes of %s changed" % p, "untrack-stale-link" if stale else None))
    return bad


def oracle(sc):
    out = []
    for j, it in enumerate(sc.eff):
        if it[0] in ("remove", "untrack") and 0 < j < len(sc.robs):
            out += [(j, what, klass) for what, klass in judge(sc, j)]
    return out


def nontrivial(sc):
    """a remove / untrack whose targets' addresses have a referrer outside the targets (sharing), or
    an untrack of a path that is a link into the cache"""
    if not sc.robs:
        return False
    for j, it in enumerate(sc.eff):
        if it[0] in ("remove", "untrack") and 0 < j < len(sc.robs):
            prev = sc.robs[j - 1]
            tg = X.match_targets(prev, it[2])
            for p in tg:
                rec = prev["recs"][p]
                for d in set([rec[0]] + rec[3]):
                    if d != "-" and any(q not in tg for q in referrers(prev, "%s/%s" % (d, R.ext_of(p)))):
                        return True
                if it[0] == "untrack" and p in prev["ws"] and prev["ws"][p][0][0] in "HL":
                    return True
    return False


def classify_corr(sc, j):
    return None


def storage_remove_probe(chk, n):
    """`xvc file remove --from-storage` (not in the model): oracle only.  Paths with shared content (same extension: one
    stored object; another extension: a sibling object in the same digest directory) are sent to a local storage; after
    `remove --from-storage L <targets> [--force]` an object may be gone only if one of the targets refers to it and --
    without --force -- no tracked path outside the targets does."""
    import os, json, random
    from . import common as C
    from .xvc import XvcRepo
    xvc = C.ensure_xvc()
    X_, Y_, Z_ = b"shared content\n" * 3, b"\x00other\n", b"third\n"
    pool = {"a.txt": X_, "b.txt": X_, "c.dat": X_, "d/e.txt": X_, "f.txt": Y_, "g.dat": Y_, "h.txt": Z_}
    ran = 0
    for k in range(n):
        rng = random.Random(chk.rng.randrange(1 << 30))
        names = sorted(rng.sample(sorted(pool), rng.randint(3, 6)))
        targets = sorted(rng.sample(names, rng.randint(1, 2)))
        force = rng.random() < 0.25
        sc = {"kind": "storage-remove-probe", "files": names, "targets": targets, "force": force}
        with XvcRepo(xvc, prefix="c05st", git=False) as rp:
            st = os.path.join(rp.base, "st")
            for p in names:
                rp.write(p, pool[p])
            if rp.xvc("--skip-git", "file", "track", *names).failed or rp.xvc("--skip-git", "storage", "new", "local", "--name", "L", "--path", st).failed \
                    or rp.xvc("--skip-git", "file", "send", "--to", "L").failed:
                continue

            def stored():
                out = {}
                for dp, _, fns in os.walk(st):
                    for fn in fns:
                        if fn != ".xvc-guid":
                            full = os.path.join(dp, fn)
                            out[os.path.relpath(full, st)] = open(full, "rb").read()
                return out
            before = stored()
            r = rp.xvc(*(["--skip-git", "file", "remove", "--from-storage", "L"] + (["--force"] if force else []) + targets))
            after = stored()
            ran += 1
            chk.count(("storage-remove", json.dumps(sc, sort_keys=True)), True)
            what = None
            for obj, data in before.items():
                ext = obj.rsplit("0.", 1)[-1] if "/0." in obj else ""
                refs = [p for p in names if pool[p] == data and (p.rsplit(".", 1)[-1] if "." in os.path.basename(p) else "") == ext]
                if obj not in after:
                    if not any(p in targets for p in refs):
                        what = "remove --from-storage %s deleted the stored object %s, which none of the targets refers to (it is the content of %s)" % (" ".join(targets), obj, ", ".join(refs) or "?")
                    elif not force and any(p not in targets for p in refs):
                        what = "remove --from-storage %s deleted the stored object %s, still needed by %s" % (" ".join(targets), obj, ", ".join(p for p in refs if p not in targets))
                elif after[obj] != data:
                    what = "remove --from-storage changed the bytes of the stored object %s" % obj
                if what:
                    break
            if what:
                chk.fail("oracle", what, {"input": sc, "stderr": (r.err or "")[-200:]}, name="storageremove")
                break
    return ran


def run(chk, replay=None):
    res = run_model_and_cache(chk, replay)
    if not replay:
        chk.cov.setdefault("distribution", {})["storage_remove_probes"] = storage_remove_probe(chk, 8 if chk.tier == "quick" else 80)
    return res


def run_model_and_cache(chk, replay=None):
    return X.run_property(
        chk, replay, "remove", oracle, classify_corr, nontrivial,
        "random histories: 2-4 tracked paths with contents from a 2-3 element pool (duplicates), new versions (a path's old version equal to another path's current one), copies and moves (shared objects, directory records), "
        "hard-linked and symlinked entries, deletions from the workspace, then remove --from-cache {current, --all-versions, --only-version <unique / ambiguous / empty prefix>} [--force] and untrack with targets {file, dir/, glob}, "
        "followed by deleting and rechecking one of the other tracked paths; referrers of every deleted object are recomputed from the content-digest event log. "
        "non-trivial = a remove / untrack one of whose target addresses has a referrer outside the targets, or an untrack of a link into the cache; distinct by the whole history",
        n_quick=120, n_thorough=1500, theorem_names=THEOREMS)
