"""C07 — a killed xvc command never corrupts the repository or loses data.

proof (Props/C07.v over Crash/Model.v: commands as lists of atomic file-system effects, a crash point
is a prefix) + two ties to the real binary:
 (1) effect-list correspondence: `strace -f` of real serial runs, canonicalised, compared call by call
     with the model's `effects` for the same repository and command (evaluated by coqc on a generated
     cases file);
 (2) real crash points: `strace -e inject=<syscall>:signal=SIGKILL:when=K` kills the binary at the entry
     of its K-th call; an oracle written from the property text (independent of the model) judges the
     repository that is left: it loads, every cache object hashes to its address, every object that
     was there is still there, every byte string of the workspace is still in the workspace or the
     cache, and re-running the command followed by `xvc file recheck` gives the state of the
     uninterrupted run."""
import os, re, json, shutil, subprocess, stat, time, hashlib, tempfile
from concurrent.futures import ThreadPoolExecutor
from . import common as C, repo as R
from .xvc import XvcRepo, Result

TRUSTED = [
    "Coq 8.16.1 kernel, coqc; vm_compute in Examples and in the generated cases file (model evaluation); no native_compute",
    "axioms: none (Print Assumptions: Closed under the global context for every theorem of Props/C07.v)",
    "no extraction: the model's effect lists are evaluated by coqc (Eval vm_compute) on build/c07/Cases.v written by vlib/c07.py; parsing of the printed terms is in vlib/c07.py",
    "correspondence machinery: strace 6.1 (-f -y -b execve; syscall log and inject=...:signal=SIGKILL:when=K, kill at syscall entry), the canonicaliser of syscall lines and of model terms in vlib/c07.py, vlib/repo.py (observe_real, ref_hash, cas_check), tools/blake3_ref.py",
    "modelled, not verified: file/src/{track,carry_in,recheck}/mod.rs, file/src/common/mod.rs (move_to_cache, recheck_from_cache, copy_file, update_store_records), file/src/common/gitignore.rs (update_file_gitignores), ecs/src/ecs/{event,mod}.rs (to_dir, from_dir, sorted_files, XvcEntityGenerator::save), core/src/types/xvcroot.rs (record/Drop) as Crash/Model.v: serial mode, one workspace directory, regular-file targets, no --force for track / carry-in, digests of the exact bytes (address = content, no extension, ideal hash), an event file is one atomic write(2)",
    "environment assumptions: POSIX rename/link/symlink/unlink are atomic; a write(2) of a few hundred bytes to a regular file is not torn by SIGKILL; no user edits while a command runs; the kill is SIGKILL of the whole process at a syscall entry (power loss / fsync ordering is not modelled)",
    "real-side bound: kills at every file-system mutating call of the thread(s) that issue them in serial runs (the theorems have no such bound); strace's when=K counts per thread and per syscall",
]

SYSCALLS = ["write", "rename", "renameat", "renameat2", "unlink", "unlinkat", "mkdir", "mkdirat", "rmdir", "link", "linkat",
            "symlink", "symlinkat", "chmod", "fchmod", "fchmodat", "copy_file_range", "sendfile", "ftruncate", "openat", "creat"]
BIG = 1073741824
STORE_SID = {"xvc-path": "SPath", "xvc-metadata": "SMeta", "recheck-method": "SMethod", "file-text-or-binary": "STob",
             "content-digest": "SDigest"}
SID_STORE = {v: k for k, v in STORE_SID.items()}
METHOD_COQ = {"copy": "MCopy", "hardlink": "MHardlink", "symlink": "MSymlink"}


def merged_known_findings():
    """known_findings.json is assembled from findings.d/*.json by the coordinator; until it is, the
    open entries of findings.d/C07.json are read from the fragment itself (same content)."""
    base = C.known_findings
    def kf(prop):
        out = list(base(prop))
        p = os.path.join(C.ROOT, "findings.d", "C07.json")
        if prop == "C07" and os.path.exists(p):
            have = {f.get("id") for f in out}
            for f in json.load(open(p)):
                if f.get("status") == "open" and f.get("id") not in have:
                    out.append(f)
        return out
    return kf


# ---------------------------------------------------------------------------------------------------
# scenarios: a list of setup steps (executed for real once, in a template repository, and mirrored
# as `run_items` in the model) and the command under test
#   ("W", name, bytes) | ("D", name) | ("track", method|None, [names]) | ("carry", [names])
#   | ("recheck", method|None, force, [names])
# ---------------------------------------------------------------------------------------------------
def contents(rng, tag):
    """distinct, newline-terminated small contents (plain text: the text digest has no aliases here)"""
    return ("%s-%04d\n" % (tag, rng.randrange(10000))).encode()


def scenarios(rng, tier):
    a1, b1, c1 = contents(rng, "a1"), contents(rng, "b1"), contents(rng, "c1")
    a2, c2, n1 = contents(rng, "a2"), contents(rng, "c2"), contents(rng, "n1")
    base = [("W", "a.txt", a1), ("W", "b.txt", b1), ("W", "c.txt", c1), ("track", None, ["a.txt", "b.txt", "c.txt"]),
            ("W", "a.txt", a2), ("carry", ["a.txt"])]          # history: a.txt has two committed versions
    scs = [
        {"name": "track", "setup": base + [("W", "a.txt", contents(rng, "a3")), ("W", "n.txt", n1)],
         "cmd": ("track", None, ["a.txt", "b.txt", "n.txt"]), "paths": ["a.txt", "b.txt", "c.txt", "n.txt"]},
        {"name": "carry-in", "setup": base + [("W", "a.txt", contents(rng, "a3")), ("W", "c.txt", c2)],
         "cmd": ("carry", ["a.txt", "b.txt", "c.txt"]), "paths": ["a.txt", "b.txt", "c.txt"]},
        {"name": "recheck", "setup": base + [("D", "a.txt"), ("D", "c.txt")],
         "cmd": ("recheck", None, False, ["a.txt", "b.txt", "c.txt"]), "paths": ["a.txt", "b.txt", "c.txt"]},
    ]
    scs += [
            {"name": "recheck-symlink", "setup": base + [("D", "a.txt")],
             "cmd": ("recheck", "symlink", False, ["a.txt", "b.txt", "c.txt"]), "paths": ["a.txt", "b.txt", "c.txt"]},
            {"name": "track-same-content", "setup": base + [("W", "n.txt", b1)],
             "cmd": ("track", None, ["n.txt"]), "paths": ["a.txt", "b.txt", "c.txt", "n.txt"]},
            # `track` without --recheck-method over an edited file whose stored method is not the default:
            # the configured default (copy) is recorded and used (TrackCLI::update_from_conf)
            {"name": "track-default-method", "setup": [("W", "a.txt", a1), ("W", "b.txt", b1), ("track", "symlink", ["a.txt", "b.txt"]),
                                                       ("W", "a.txt", a2)],
             "cmd": ("track", None, ["a.txt", "b.txt"]), "paths": ["a.txt", "b.txt"]},
    ]
    if tier == "thorough":
        scs += [
            {"name": "recheck-hardlink", "setup": base,
             "cmd": ("recheck", "hardlink", False, ["a.txt", "b.txt"]), "paths": ["a.txt", "b.txt", "c.txt"]},
            {"name": "recheck-force", "setup": base,
             "cmd": ("recheck", None, True, ["a.txt", "b.txt", "c.txt"]), "paths": ["a.txt", "b.txt", "c.txt"]},
            {"name": "track-symlink", "setup": base + [("W", "n.txt", n1), ("W", "m.txt", contents(rng, "m1"))],
             "cmd": ("track", "symlink", ["n.txt", "m.txt"]), "paths": ["a.txt", "b.txt", "c.txt", "n.txt", "m.txt"]},
            {"name": "track-first", "setup": [("W", "a.txt", a1), ("W", "b.txt", b1)],
             "cmd": ("track", None, ["a.txt", "b.txt"]), "paths": ["a.txt", "b.txt"]},
            # content that is already in the cache, committed through a link method (P23b)
            {"name": "track-hardlink-cached-content", "setup": [("W", "a.txt", a1), ("W", "b.txt", b1), ("track", "hardlink", ["a.txt", "b.txt"]),
                                                                ("W", "a.txt", b1)],
             "cmd": ("track", "hardlink", ["a.txt"]), "paths": ["a.txt", "b.txt"]},
            {"name": "carry-in-cached-content", "setup": [("W", "a.txt", a1), ("W", "b.txt", b1), ("W", "c.txt", c1),
                                                          ("track", "symlink", ["a.txt", "b.txt", "c.txt"]), ("W", "a.txt", b1), ("W", "c.txt", c2)],
             "cmd": ("carry", ["a.txt", "b.txt", "c.txt"]), "paths": ["a.txt", "b.txt", "c.txt"]},
        ]
    return scs


def other_fs_available():
    try:
        return os.path.isdir("/dev/shm") and os.access("/dev/shm", os.W_OK) and os.stat("/dev/shm").st_dev != os.stat(tempfile.gettempdir()).st_dev
    except OSError:
        return False


def bring_scenarios(rng):
    """oracle only, both tiers: `bring` into an empty cache with the temporary directory on ANOTHER file system --
    the downloaded object cannot be renamed into the cache, and a kill inside the cross-device move must not
    leave a partial object at the cache address"""
    if not other_fs_available():
        return []
    a1, b1 = contents(rng, "a1") * 3000, contents(rng, "b1")          # a.txt: ~20 kB, copied in more than one call
    setup = [("W", "a.txt", a1), ("W", "b.txt", b1), ("track", None, ["a.txt", "b.txt"]),
             ("xvc", ["storage", "new", "local", "--name", "L", "--path", "@STORAGE"]), ("xvc", ["file", "send", "--to", "L"]),
             ("rmcache",), ("D", "a.txt"), ("D", "b.txt")]
    return [{"name": "bring-other-fs", "setup": setup, "argv": ["file", "bring", "--from", "L"],
             "paths": ["a.txt", "b.txt"], "tmp_other": True}]


def move_scenarios(rng):
    """oracle only, both tiers: a move to a name with ANOTHER extension -- the cache address carries the extension, so the
    command also has to put every recorded version at the new address; killed anywhere, the moved path must not
    end up recorded without its object"""
    a1, b1 = contents(rng, "a1"), contents(rng, "b1")
    base = [("W", "a.txt", a1), ("W", "b.txt", b1), ("track", None, ["a.txt", "b.txt"]), ("W", "a.txt", contents(rng, "a2")), ("carry", ["a.txt"])]
    return [{"name": "move-other-extension", "setup": base, "argv": ["file", "move", "a.txt", "a.dat"], "paths": ["a.txt", "b.txt", "a.dat"]}]


# commands outside the model (oracle only; thorough tier): argv after the global options
def extra_scenarios(rng):
    a1, b1, c1 = contents(rng, "a1"), contents(rng, "b1"), contents(rng, "c1")
    base = [("W", "a.txt", a1), ("W", "b.txt", b1), ("W", "c.txt", c1), ("track", None, ["a.txt", "b.txt", "c.txt"]),
            ("W", "a.txt", contents(rng, "a2")), ("carry", ["a.txt"])]
    return [
        {"name": "copy", "setup": base, "argv": ["file", "copy", "a.txt", "a2.txt"], "paths": ["a.txt", "b.txt", "c.txt", "a2.txt"]},
        {"name": "move", "setup": base, "argv": ["file", "move", "b.txt", "b2.txt"], "paths": ["a.txt", "b.txt", "c.txt", "b2.txt"]},
        {"name": "remove", "setup": base, "argv": ["file", "remove", "--from-cache", "c.txt"], "paths": ["a.txt", "b.txt", "c.txt"],
         "removes": True},
        {"name": "untrack", "setup": base, "argv": ["file", "untrack", "c.txt"], "paths": ["a.txt", "b.txt", "c.txt"], "removes": True},
        {"name": "track-parallel", "setup": base + [("W", "a.txt", contents(rng, "a3")), ("W", "n.txt", contents(rng, "n1"))],
         "argv": ["file", "track", "a.txt", "b.txt", "n.txt"], "paths": ["a.txt", "b.txt", "c.txt", "n.txt"]},
        {"name": "carry-in-parallel", "setup": base + [("W", "a.txt", contents(rng, "a3")), ("W", "c.txt", contents(rng, "c2"))],
         "argv": ["file", "carry-in", "a.txt", "b.txt", "c.txt"], "paths": ["a.txt", "b.txt", "c.txt"]},
        {"name": "pipeline-step-new", "setup": base, "argv": ["pipeline", "step", "new", "--step-name", "s1", "--command", "true"],
         "paths": ["a.txt", "b.txt", "c.txt"], "stores_only": True},
    ]


def cmd_argv(cmd, serial=True):
    k = cmd[0]
    if k == "track":
        a = ["file", "track"] + (["--no-parallel"] if serial else [])
        if cmd[1]:
            a += ["--recheck-method", cmd[1]]
        return a + list(cmd[2])
    if k == "carry":
        return ["file", "carry-in"] + (["--no-parallel"] if serial else []) + list(cmd[1])
    if k == "recheck":
        # recheck() receives opts.no_parallel in its `parallel` parameter: WITHOUT the flag it is serial
        a = ["file", "recheck"]
        if cmd[1]:
            a += ["--recheck-method", cmd[1]]
        if cmd[2]:
            a += ["--force"]
        return a + list(cmd[3])
    raise ValueError(k)


class Template:
    """the pre-command repository, built once; every run works on a private copy of it"""

    def __init__(self, xvc_bin, sc):
        self.sc = sc
        self.repo = XvcRepo(xvc_bin, prefix="c07t", git=False)
        self.xvc_bin = xvc_bin
        # "tmp_other": the command under test runs with TMPDIR on another file system (tmpfs), so that moving a
        # downloaded object into the cache cannot be a rename
        self.shm = None
        if sc.get("tmp_other"):
            self.shm = tempfile.mkdtemp(prefix="xvc-verif-c07-", dir="/dev/shm")
        tick = 0
        for st in sc["setup"]:
            if st[0] == "W":
                tick += 1
                self.repo.write(st[1], st[2], mtime_ns=R.BASE_NS + tick * 1_000_000_000)
            elif st[0] == "D":
                os.unlink(self.repo.path(st[1]))
            elif st[0] == "xvc":
                # any other command of the setup; @STORAGE is a directory next to the repository (shared, read only, by the copies)
                r = self.repo.xvc(*(["--skip-git"] + [os.path.join(self.repo.base, "storage") if x == "@STORAGE" else x for x in st[1]]))
                if r.failed:
                    raise RuntimeError("scenario setup failed: %s: %r" % (st, r))
            elif st[0] == "rmcache":
                for a_ in R.ALGOS:
                    C.rm_rf(os.path.join(self.repo.root, ".xvc", a_))
            else:
                r = self.repo.xvc(*(["--skip-git"] + cmd_argv(st)))
                if r.failed:
                    raise RuntimeError("scenario setup failed: %s: %r" % (st, r))
        self.argv = ["--skip-git"] + (sc["argv"] if "argv" in sc else cmd_argv(sc["cmd"]))
        self.obs0 = strip(observe(self.repo.root))
        self.gitignore0 = self.repo.read(".gitignore") or b""
        self.meta0 = meta_files(self.repo.root)

    def copy(self):
        d = C.scratch_dir("c07w")
        w = os.path.join(d, "r")
        shutil.copytree(self.repo.root, w, symlinks=True)      # copystat keeps mtimes (ns) and modes
        return d, w

    def env(self):
        e = dict(C.BASE_ENV); e.update(self.repo.env)
        if self.shm:
            e["TMPDIR"] = self.shm
        return e

    def xvc(self, root, *args, timeout=120):
        t0 = time.time()
        try:
            p = subprocess.run([self.xvc_bin] + list(args), cwd=root, env=self.env(), stdout=subprocess.PIPE,
                               stderr=subprocess.PIPE, text=True, errors="replace", timeout=timeout)
            return Result(p.returncode, p.stdout, p.stderr, time.time() - t0, False)
        except subprocess.TimeoutExpired:
            return Result(124, "", "timeout", time.time() - t0, True)

    def strace(self, root, trace_file, inject=None, timeout=120):
        a = ["strace", "-y", "-f", "-b", "execve", "-s", "0", "-o", trace_file, "-e", "trace=" + ",".join(SYSCALLS)]
        if inject:
            a += ["-e", "inject=%s:signal=SIGKILL:when=%d" % inject]
        try:
            p = subprocess.run(a + [self.xvc_bin] + self.argv, cwd=root, env=self.env(), stdout=subprocess.PIPE,
                               stderr=subprocess.PIPE, text=True, errors="replace", timeout=timeout)
            return p.returncode, p.stderr
        except subprocess.TimeoutExpired:
            return 124, "timeout"

    def close(self):
        self.repo.cleanup()
        if self.shm:
            C.rm_rf(self.shm)


def replay_store(root, name):
    """independent, crash-tolerant replay of a store directory: names with the `.tmp-` prefix are not
    listed (as sorted_files of the fixed tree); an unparsable listed file makes the store unloadable"""
    d = os.path.join(root, ".xvc", "store", name)
    cur, hist = {}, {}
    if not os.path.isdir(d):
        return cur, hist, True
    ok = True
    for f in sorted(os.listdir(d)):
        if f.startswith(".tmp-"):
            continue
        try:
            evs = json.load(open(os.path.join(d, f)))
        except (ValueError, OSError):
            ok = False
            continue
        for ev in evs:
            if "Add" in ev:
                e = tuple(ev["Add"]["entity"]); cur[e] = ev["Add"]["value"]; hist.setdefault(e, []).append(ev["Add"]["value"])
            else:
                e = tuple(ev["Remove"]["entity"]); cur.pop(e, None)
    return cur, hist, ok


def observe(root):
    """workspace entries (kind, u+w, bytes), cache objects (address -> kind, u+w, dir u+w, bytes), records;
    same canonical form as vlib/repo.py observe_real, but tolerant of torn store files"""
    o = {"oc": "Ok", "ws": {}, "objs": {}, "recs": {}}
    xvc = os.path.join(root, ".xvc")
    ino_to_addr = {}
    for a in R.ALGOS:
        for dp, dn, fn in os.walk(os.path.join(xvc, a)):
            for f in fn:
                full = os.path.join(dp, f)
                addr = R.parse_cache_path(os.path.relpath(full, xvc))
                if addr is None and re.fullmatch(r"\..+\.\d+\.tmp", f):
                    # the temporary name a cross-device move copies to before it renames (rename_or_copy,
                    # copy_cache_file_for_path: `.<name>.<pid>.tmp`): not a cache address, never read by any command;
                    # a kill can leave one behind, like the `.tmp-` files of the stores
                    continue
                if addr is None:
                    o["objs"]["?" + os.path.relpath(full, xvc)] = ["?", "?", "?", "?"]
                    continue
                st = os.lstat(full)
                dw = "1" if os.stat(dp).st_mode & 0o200 else "0"
                if stat.S_ISLNK(st.st_mode):
                    kind, w = "L?" + os.readlink(full), "-"
                else:
                    kind, w = "F", ("1" if st.st_mode & 0o200 else "0")
                    ino_to_addr.setdefault(st.st_ino, addr)
                try:
                    b = open(full, "rb").read().hex()
                except OSError:
                    b = "!"
                o["objs"][addr] = [kind, w, dw, b]
    for dp, dn, fn in os.walk(root):
        dn[:] = [d for d in dn if not (dp == root and d in (".xvc", ".git"))]
        for f in fn:
            full = os.path.join(dp, f)
            rel = os.path.relpath(full, root)
            if f in (".gitignore", ".xvcignore"):
                continue
            st = os.lstat(full)
            if stat.S_ISLNK(st.st_mode):
                tgt = os.readlink(full)
                m = re.search(r"/\.xvc/(.+)$", tgt)
                ta = R.parse_cache_path(m.group(1)) if m else None
                kind, w = "L" + (ta or "?" + tgt), "-"
            else:
                a = ino_to_addr.get(st.st_ino)
                kind, w = ("H" + a if a else "F"), ("1" if st.st_mode & 0o200 else "0")
            try:
                b = open(full, "rb").read().hex()
            except OSError:
                b = "!"
            o["ws"][rel] = [kind, w, b]
    paths, _, ok1 = replay_store(root, "xvc-path-store")
    metas, _, ok2 = replay_store(root, "xvc-metadata-store")
    digs, dhist, ok3 = replay_store(root, "content-digest-store")
    meths, _, ok4 = replay_store(root, "recheck-method-store")
    tobs, _, ok5 = replay_store(root, "file-text-or-binary-store")
    if not (ok1 and ok2 and ok3 and ok4 and ok5):
        o["recs"]["!"] = ["a store file does not parse"]
    for e, p in paths.items():
        md = metas.get(e)
        if md is not None and md.get("file_type") == "Directory":
            continue
        d = digs.get(e)
        o["recs"][p] = [R.digest_str(d) if d else "-", (meths.get(e) or "-").lower(), (tobs.get(e) or "-").lower(),
                        [R.digest_str(x) for x in reversed(dhist.get(e, []))]]
    return o


def records_partial(root):
    """some entity of the path store misses one of its other components (directory records have metadata only)"""
    paths, _, ok1 = replay_store(root, "xvc-path-store")
    metas, _, ok2 = replay_store(root, "xvc-metadata-store")
    digs, _, ok3 = replay_store(root, "content-digest-store")
    meths, _, ok4 = replay_store(root, "recheck-method-store")
    tobs, _, ok5 = replay_store(root, "file-text-or-binary-store")
    if not (ok1 and ok2 and ok3 and ok4 and ok5):
        return True
    for e in paths:
        md = metas.get(e)
        if md is None:
            return True
        if md.get("file_type") == "Directory":
            continue
        if e not in digs or e not in meths or e not in tobs:
            return True
    return False


def meta_files(root):
    """relative name -> bytes of every file under .xvc/store and .xvc/ec"""
    out = {}
    for sub in ("store", "ec"):
        top = os.path.join(root, ".xvc", sub)
        for dp, dn, fn in os.walk(top):
            for f in fn:
                p = os.path.join(dp, f)
                try:
                    out[os.path.relpath(p, root)] = open(p, "rb").read()
                except OSError:
                    out[os.path.relpath(p, root)] = None
    return out


def strip(o):
    """the observation C07 compares: workspace entries (kind, u+w, bytes), cache objects (address ->
    kind, u+w, directory u+w, bytes), records"""
    return {"ws": o["ws"], "objs": {a: list(v) for a, v in o["objs"].items()}, "recs": o["recs"]}


# ---------------------------------------------------------------------------------------------------
# strace log -> canonical sequence of mutating calls
# ---------------------------------------------------------------------------------------------------
LINE = re.compile(r"^(\d+)\s+(\w+)\((.*)$")
FDP = re.compile(r"^(\d+)<([^>]*)>")


def join_unfinished(lines):
    """merges `<unfinished ...>` / `<... resumed>` pairs of the same pid"""
    pend, out = {}, []
    for l in lines:
        m = re.match(r"^(\d+)\s+(.*)$", l)
        if not m:
            continue
        pid, rest = m.group(1), m.group(2)
        if rest.endswith("<unfinished ...>"):
            pend[pid] = (len(out), rest[:-len("<unfinished ...>")])
            out.append(None)
            continue
        r = re.match(r"^<\.\.\. (\w+) resumed>(.*)$", rest)
        if r and pid in pend:
            i, head = pend.pop(pid)
            out[i] = (pid, head + r.group(2))
            continue
        out.append((pid, rest))
    # calls that never resumed (killed inside)
    for pid, (i, head) in pend.items():
        out[i] = (pid, head + ") = ?")
    return [x for x in out if x]


class Canon:
    def __init__(self, root, labels):
        self.root = root.rstrip("/") + "/"
        self.labels = labels        # object hex digest -> content label

    def path(self, p):
        if p.startswith(self.root):
            p = p[len(self.root):]
        elif p.startswith("/"):
            return None
        m = re.match(r"^\.xvc/store/([a-z-]+)-store/(\.tmp-)?\d+\.json$", p)
        if m:
            return ("storetmp:" if m.group(2) else "store:") + m.group(1)
        m = re.match(r"^\.xvc/ec/(\.tmp-)?\d+$", p)
        if m:
            return "ectmp" if m.group(1) else "ec"
        m = re.match(r"^\.xvc/(b3|b2|s2|s3)/([0-9a-f]{3})/([0-9a-f]{3})/([0-9a-f]{58})(/0\.[^/]*|/0)?$", p)
        if m:
            h = m.group(2) + m.group(3) + m.group(4)
            lab = self.labels.get(h, h[:8])
            return ("obj:" if m.group(5) else "objdir:") + lab
        if re.match(r"^\.xvc/(b3|b2|s2|s3)(/[0-9a-f]{3}){0,2}$", p):
            return "cacheprefix"
        if p == ".gitignore" or p.endswith("/.gitignore"):
            return "ign"
        if re.match(r"^\.xvc/store/[a-z-]+-store$", p) or p in (".xvc/store", ".xvc/ec"):
            return "storedir"          # sorted_files creates a missing store directory when it loads it
        if p.startswith(".xvc"):
            return "xvc:" + p
        return "ws:" + p

    def call(self, name, args, ret):
        """canonical (op, a, b) of one syscall line, or None when it does not change the file system"""
        failed = ret.startswith("-1")
        q = re.findall(r'"((?:[^"\\]|\\.)*)"', args)
        if name in ("openat", "creat"):
            if "O_CREAT" not in args and name != "creat":
                return None
            if failed or not q:
                return None
            p = self.path(q[0] if q[0].startswith("/") else self._at(args, q[0]))
            if p is None:
                return None
            return ("touch" if "O_APPEND" in args else "creat", p, None)
        if name == "write":
            m = FDP.match(args)
            if not m:
                return None
            p = self.path(m.group(2))
            if p is None or p.startswith("xvc:") or not (p.startswith(("store", "ec", "ws:")) or p == "ign"):
                return None
            return ("write", p, None)
        if failed:
            return None
        if name in ("rename", "renameat", "renameat2") and len(q) >= 2:
            return ("rename", self.path(self._abs(q[0])), self.path(self._abs(q[1])))
        if name in ("unlink", "unlinkat", "rmdir") and q:
            return ("unlink", self.path(self._abs(q[0])), None)
        if name in ("mkdir", "mkdirat") and q:
            p = self.path(self._abs(q[0]))
            return None if p == "cacheprefix" else ("mkdir", p, None)
        if name in ("link", "linkat") and len(q) >= 2:
            return ("link", self.path(self._abs(q[0])), self.path(self._abs(q[1])))
        if name in ("symlink", "symlinkat") and len(q) >= 2:
            return ("symlink", self.path(self._abs(q[0])), self.path(self._abs(q[1])))
        if name in ("chmod", "fchmodat") and q:
            mode = re.search(r",\s*0?([0-7]+)\)?\s*$", args.strip().rstrip(")"))
            return ("chmod", self.path(self._abs(q[0])), "w" if mode and int(mode.group(1), 8) & 0o200 else "r")
        if name == "fchmod":
            m = FDP.match(args)
            mode = re.search(r",\s*0?([0-7]+)\s*$", args.strip().rstrip(")"))
            if m:
                return ("chmod", self.path(m.group(2)), "w" if mode and int(mode.group(1), 8) & 0o200 else "r")
        if name in ("copy_file_range", "sendfile"):
            fds = re.findall(r"(\d+)<([^>]*)>", args)
            if len(fds) >= 2:
                a, b = fds[0][1], fds[1][1]
                if name == "sendfile":
                    a, b = b, a
                return ("copy", self.path(a), self.path(b))
        if name == "ftruncate":
            m = FDP.match(args)
            if m:
                return ("truncate", self.path(m.group(2)), None)
        return None

    def _abs(self, p):
        return p if p.startswith("/") else self.root + p

    def _at(self, args, p):
        m = re.match(r"^AT_FDCWD<([^>]*)>", args)
        base = (m.group(1).rstrip("/") + "/") if m else self.root
        return base + p


def parse_trace(path, canon, injected=None):
    """-> (done: canonical mutating calls that completed, in log order; killed: the canonical call the
    kill preceded or None; raw killed line; per-(pid,syscall) invocation counts with the mutating ones)"""
    try:
        lines = open(path, errors="replace").read().split("\n")
    except OSError:
        return [], None, None, []
    done, killed, killed_raw = [], None, None
    killed_is_injected = False
    counters, points = {}, []
    for pid, rest in join_unfinished(lines):
        m = re.match(r"^(\w+)\((.*)\)\s*=\s*(.*)$", rest)
        if not m:
            continue
        name, args, ret = m.group(1), m.group(2), m.group(3).strip()
        k = counters.get((pid, name), 0) + 1
        counters[(pid, name)] = k
        if ret.startswith("?"):
            # a call that was in flight when the process died.  SIGKILL leaves one such line per thread:
            # the call the kill preceded is the one of the injected syscall (the others are threads blocked
            # in futex / read / openat at that moment); canonicalise it as if it had succeeded
            if injected is not None and name != injected and killed_is_injected:
                continue
            if injected is not None and name != injected and name in ("futex", "read", "poll", "epoll_wait", "nanosleep", "clock_nanosleep", "wait4", "recvmsg"):
                continue
            killed_raw = "%s(%s)" % (name, args[:160])
            killed = canon.call(name, args, "0") or ("other", name, None)
            killed_is_injected = injected is not None and name == injected
            continue
        c = canon.call(name, args, ret)
        if c is not None:
            done.append(c)
            points.append((name, k, pid, c))
    return done, killed, killed_raw, points


# ---------------------------------------------------------------------------------------------------
# the model side: cases file evaluated by coqc
# ---------------------------------------------------------------------------------------------------
def coq_bytes(b):
    return "[" + "; ".join(str(x) for x in b) + "]"


def coq_item(st, ids):
    k = st[0]
    if k == "W":
        return "UWrite %d %s" % (ids[st[1]], coq_bytes(st[2]))
    if k == "D":
        return "UDelete %d" % ids[st[1]]
    return "Xvc (%s)" % coq_cmd(st, ids)


def coq_cmd(cmd, ids):
    k = cmd[0]
    pl = lambda ps: "[" + "; ".join(str(ids[p]) for p in ps) + "]"
    if k == "track":
        return "Track %s %s" % ("(Some %s)" % METHOD_COQ[cmd[1]] if cmd[1] else "None", pl(cmd[2]))
    if k == "carry":
        return "CarryIn %s" % pl(cmd[1])
    if k == "recheck":
        return "Recheck %s %s %s" % ("(Some %s)" % METHOD_COQ[cmd[1]] if cmd[1] else "None", "true" if cmd[2] else "false", pl(cmd[3]))
    raise ValueError(k)


def model_effects(cases):
    """cases: list of (setup steps, command, ids, fixed) -> list of canonical op lists (or None on failure)"""
    d = os.path.join(C.ROOT, "build", "c07")
    os.makedirs(d, exist_ok=True)
    src = ["From Coq Require Import List Bool NArith.", "From XV Require Import Base.Amap Base.Bytes Crash.Model.",
           "Import ListNotations.", "Open Scope N."]
    for i, (setup, cmd, ids, fixed) in enumerate(cases):
        fx = "true" if fixed else "false"
        src.append("Definition f%d := run_items %s %d [%s]." % (i, fx, BIG, "; ".join(coq_item(s, ids) for s in setup)))
        src.append('Goal True. idtac "@@@ %d". Abort.' % i)
        src.append("Eval vm_compute in (effects %s %d f%d (%s))." % (fx, BIG, i, coq_cmd(cmd, ids)))
    fn = os.path.join(d, "Cases%d.v" % os.getpid())
    with open(fn, "w") as fh:
        fh.write("\n".join(src) + "\n")
    rc, out = C.sh("timeout 300 coqc -Q %s/theories XV %s" % (C.COQ, fn), cwd=d, timeout=330)
    for ext in (".v", ".vo", ".vok", ".vos", ".glob"):
        try:
            os.unlink(fn[:-2] + ext)
        except OSError:
            pass
    try:
        os.unlink(os.path.join(d, "." + os.path.basename(fn)[:-2] + ".aux"))
    except OSError:
        pass
    if rc != 0:
        return None, out[-1500:]
    res = [None] * len(cases)
    chunks = re.split(r"@@@ (\d+)\n", out)
    for j in range(1, len(chunks) - 1, 2):
        res[int(chunks[j])] = chunks[j + 1]
    return res, ""


TERM = re.compile(r"(Mkdir|Creat|Touch|Append|WriteMeta|Rename|Unlink|Link|Symlink|Chmod|CopyChunk)\b")


def parse_model_ops(txt, names, labels_by_bytes):
    """the printed `list fsop` -> canonical ops.  names: id -> workspace name"""
    txt = re.sub(r"\s+", " ", txt)
    m = re.search(r"= \[(.*)\] : list fsop", txt)
    if not m:
        return None
    body = m.group(1)

    def loc(s):
        s = s.strip().strip("()").strip()
        mm = re.match(r"^(LStoreTmp|LStore) \(?(\w+)(?: \d+)?\)? \d+$", s)
        if mm:
            return ("storetmp:" if mm.group(1) == "LStoreTmp" else "store:") + SID_STORE.get(mm.group(2), mm.group(2))
        if re.match(r"^LEc \d+$", s):
            return "ec"
        if re.match(r"^LEcTmp \d+$", s):
            return "ectmp"
        mm = re.match(r"^(LObjDir|LObj) \[([0-9; ]*)\]$", s)
        if mm:
            b = bytes(int(x) for x in mm.group(2).replace(" ", "").split(";") if x)
            return ("objdir:" if mm.group(1) == "LObjDir" else "obj:") + labels_by_bytes.get(b, b.hex()[:8])
        mm = re.match(r"^LWs (\d+)$", s)
        if mm:
            return "ws:" + names.get(int(mm.group(1)), "#" + mm.group(1))
        if s == "LIgn":
            return "ign"
        return "?" + s

    # split the top-level list at the positions of constructor names that start an element
    ops = []
    starts = [mm.start() for mm in TERM.finditer(body) if mm.start() == 0 or body[mm.start() - 2:mm.start()] == "; "]
    starts.append(len(body) + 2)
    for a, b in zip(starts, starts[1:]):
        e = body[a:b - 2].strip()
        name = e.split(" ", 1)[0]
        rest = e[len(name):].strip()
        locs = re.findall(r"\((L\w+[^()]*(?:\([^()]*\))?[^()]*)\)|\b(LIgn)\b", rest)
        locs = [x[0] or x[1] for x in locs]
        if name == "Mkdir":
            ops.append(("mkdir", loc(locs[0]), None))
        elif name == "Creat":
            ops.append(("creat", loc(locs[0]), None))
        elif name == "Touch":
            ops.append(("touch", loc(locs[0]), None))
        elif name in ("Append", "WriteMeta"):
            ops.append(("write", loc(locs[0]), None))
        elif name == "Rename":
            ops.append(("rename", loc(locs[0]), loc(locs[1])))
        elif name == "Unlink":
            ops.append(("unlink", loc(locs[0]), None))
        elif name == "Link":
            ops.append(("link", loc(locs[0]), loc(locs[1])))
        elif name == "Symlink":
            mm = re.match(r"^\[([0-9; ]*)\]", rest)
            b = bytes(int(x) for x in mm.group(1).replace(" ", "").split(";") if x)
            ops.append(("symlink", "obj:" + labels_by_bytes.get(b, b.hex()[:8]), loc(locs[0])))
        elif name == "Chmod":
            ops.append(("chmod", loc(locs[0]), "w" if rest.strip().endswith("true") else "r"))
        elif name == "CopyChunk":
            ops.append(("copy", loc(locs[0]), loc(locs[1])))
    return ops


def labels_of(sc):
    """hex digest -> label, bytes -> label for every content the scenario writes (b3, text digest)"""
    by_hex, by_bytes = {}, {}
    for st in sc["setup"]:
        if st[0] == "W":
            lab = st[2].decode().strip()
            by_hex[R.ref_hash("b3", R.strip_crlf(st[2]))] = lab
            by_hex[R.ref_hash("b3", st[2])] = lab
            by_bytes[st[2]] = lab
    return by_hex, by_bytes


def target_order(done, names):
    """the order in which the implementation visited its per-file targets (HashMap iteration order):
    order of the first content-moving call on each workspace path"""
    order = []
    for op, a, b in done:
        for x in (a, b):
            if isinstance(x, str) and x.startswith("ws:") and op in ("rename", "unlink", "creat", "link", "symlink"):
                n = x[3:]
                if n in names and n not in order:
                    order.append(n)
    return order


def reorder(cmd, order):
    k = cmd[0]
    i = {"track": 2, "carry": 1, "recheck": 3}[k]
    ps = [p for p in order if p in cmd[i]] + [p for p in cmd[i] if p not in order]
    c = list(cmd); c[i] = ps
    return tuple(c)


# ---------------------------------------------------------------------------------------------------
# classes of a crash point, decided by the calls that completed and the call the kill preceded
# ---------------------------------------------------------------------------------------------------
def completes_record_save(c):
    return (c[0] == "write" and c[1].startswith("store:")) or (c[0] == "rename" and (c[2] or "").startswith("store:"))


def moves_into_cache(c):
    """a call that moves or deletes content: rename of a workspace file (into the cache, or to its new
    name for `move`), unlink of a cache object (untrack, remove)"""
    return (c[0] == "rename" and (c[1] or "").startswith("ws:")) or (c[0] == "unlink" and (c[1] or "").startswith("obj:"))


def replaces_workspace_file(c):
    """unlink of a workspace file: the content step of carry_in() when the bytes to commit are already in
    the cache (move_to_cache is skipped, no rename happens)"""
    return c[0] == "unlink" and (c[1] or "").startswith("ws:")


def commits_content(full):
    """the command saves the content-digest store (track / carry-in of new content; never recheck)"""
    return any(completes_record_save(c) and "content-digest" in ((c[1] or "") + " " + (c[2] or "")) for c in full)


def classes_of(done, killed, full):
    """full: the canonical calls of the uninterrupted run (as a multiset: the order of the per-file
    groups varies with the HashMap seed)"""
    ks = []
    if killed and killed[0] == "write" and (killed[1].startswith("store:") or killed[1] == "ec"):
        ks.append("torn-event-file")
    if killed and killed[0] in ("chmod", "copy") and ((killed[1] or "").startswith("ws:") or (killed[0] == "copy" and (killed[2] or "").startswith("ws:"))):
        ks.append("crash-during-workspace-copy")
    todo = list(full)
    for c in done:
        if c in todo:
            todo.remove(c)
    if (any(completes_record_save(c) for c in done) and any(moves_into_cache(c) for c in todo)) or \
       (any(moves_into_cache(c) for c in done) and any(completes_record_save(c) for c in todo)):
        ks.append("crash-between-records-and-content")
    if any(completes_record_save(c) for c in done) and any(completes_record_save(c) for c in todo):
        ks.append("partial-record-set")
    # P23b: the same order of effects as P23 when the content is already in the cache
    # (K_crash_between_records_and_replacement of Crash/Model.v, without the rename case, which is P23's)
    if commits_content(full) and (
            (any(completes_record_save(c) for c in done) and any(replaces_workspace_file(c) for c in todo)) or
            (any(replaces_workspace_file(c) for c in done) and any(completes_record_save(c) for c in todo))):
        ks.append("crash-between-records-and-replacement")
    if killed and killed[0] == "chmod" and (killed[1] or "").startswith(("obj:", "objdir:")) and killed[2] == "r":
        ks.append("object-left-writable")
    return ks


# ---------------------------------------------------------------------------------------------------
# the oracle (from the property text; independent of the model)
# ---------------------------------------------------------------------------------------------------
def cas_violations(obs):
    """(d) no partial / foreign object at a cache address: every object re-hashed against its address.
    Permission bits are left to C02 (a kill between rename and chmod leaves an intact, writable object)."""
    return [v for v in R.cas_check(obs) if "is writable" not in v]


def inventory(root):
    inv = set()
    for dp, dn, fn in os.walk(root):
        if dp == root:
            dn[:] = [d for d in dn if d != ".git"]
        for f in fn:
            p = os.path.join(dp, f)
            if os.path.islink(p) or not os.path.isfile(p):
                continue
            rel = os.path.relpath(p, root)
            if rel.startswith(".xvc/") and R.parse_cache_path(rel[5:]) is None:
                continue
            try:
                inv.add(open(p, "rb").read())
            except OSError:
                pass
    return inv


def judge(t, w, ref_obs, sc):
    """returns list of (clause, what) violated by the crashed repository at w; runs the re-run"""
    bad = []
    # (a) every later command loads the repository
    r = t.xvc(w, "file", "list")
    loads = not r.failed
    if not loads:
        bad.append(("loads", "after the kill `xvc file list` fails: " + (r.err.strip().split("\n") or [""])[0][:200]))
    obs = observe(w)
    # event and counter files written by earlier commands are never rewritten (append-only stores)
    now = meta_files(w)
    for rel, b0 in t.meta0.items():
        if now.get(rel) != b0:
            bad.append(("event-file-rewritten", "%s, written by an earlier command, is %s after the kill" % (rel, "gone" if rel not in now else "changed")))
    # (d)
    for v in cas_violations(obs):
        bad.append(("partial-object", v))
    # (b) every version that was in the cache before the command is still there, byte for byte
    if not sc.get("removes"):
        for a, (kind, _w, _dw, b) in t.obs0["objs"].items():
            e = obs["objs"].get(a)
            if e is None or e[3] != b:
                bad.append(("version-lost", "object %s committed before the command is %s" % (a, "gone" if e is None else "changed")))
    # (c) every byte string of the workspace is still in the workspace or in the cache
    if not sc.get("removes"):
        inv = inventory(w)
        for p, (kind, w_, b) in t.obs0["ws"].items():
            if kind == "F" or kind.startswith("H"):
                if bytes.fromhex(b) not in inv:
                    bad.append(("bytes-lost", "the bytes of %s (%s) are neither in the workspace nor in the cache" % (p, b[:40])))
        gi = None
        try:
            gi = open(os.path.join(w, ".gitignore"), "rb").read()
        except OSError:
            pass
        if t.gitignore0 and (gi is None or not gi.startswith(t.gitignore0)):
            bad.append(("bytes-lost", ".gitignore was not extended but rewritten"))
    # (b') the recorded versions that are in the cache restore byte for byte into a scratch copy
    if loads and not sc.get("removes"):
        d2 = C.scratch_dir("c07s")
        try:
            w2 = os.path.join(d2, "r")
            shutil.copytree(w, w2, symlinks=True)
            for p in list(obs["recs"]):
                fp = os.path.join(w2, p)
                if os.path.lexists(fp):
                    os.unlink(fp)
            t.xvc(w2, "--skip-git", "file", "recheck")
            for p, rec in obs["recs"].items():
                dg = rec[0]
                if dg == "-":
                    continue
                addr = "%s/%s" % (dg, R.ext_of(p))
                if addr in obs["objs"]:
                    want = bytes.fromhex(obs["objs"][addr][3])
                    try:
                        got = open(os.path.join(w2, p), "rb").read()
                    except OSError:
                        got = None
                    if got != want:
                        bad.append(("restore-fails", "recheck does not restore %s from the object of its recorded version" % p))
        finally:
            C.rm_rf(d2)
    # re-running the interrupted command and then recheck gives the state of the uninterrupted run
    r1 = t.xvc(w, *t.argv)
    r2 = t.xvc(w, "--skip-git", "file", "recheck")
    after = strip(observe(w))
    diffs = obs_diff(ref_obs, after)
    if diffs:
        perm_only = ref_obs["ws"] == after["ws"] and ref_obs["recs"] == after["recs"] and set(ref_obs["objs"]) == set(after["objs"]) and \
            all(ref_obs["objs"][k][0] == after["objs"][k][0] and ref_obs["objs"][k][3:] == after["objs"][k][3:] for k in ref_obs["objs"])
        bad.append(("rerun-diverges", "re-run + recheck differs from the uninterrupted run: " + "; ".join(diffs[:4])
                    + ((" [re-run failed: %s]" % (r1.err.strip().split("\n")[0][:120])) if r1.failed else "")
                    + (" [only-permission-bits]" if perm_only else "")
                    + (" [only-source-left]" if source_left_only(ref_obs, after) else "")
                    + (" [only-extra-objects]" if extra_objects_only(ref_obs, after) else "")))
    return bad, loads


def obs_diff(a, b):
    out = []
    for sec in ("ws", "objs", "recs"):
        for k in sorted(set(a[sec]) | set(b[sec])):
            if a[sec].get(k) != b[sec].get(k):
                out.append("%s[%s]: uninterrupted %s, after re-run %s" % (sec, k, R.short(a[sec].get(k))[:120], R.short(b[sec].get(k))[:120]))
    return out


CLAUSE_CLASS = {"loads": ["torn-event-file"],
                "restore-fails": ["partial-record-set"],
                "rerun-diverges": ["torn-event-file", "partial-record-set", "crash-during-workspace-copy", "crash-between-records-and-content",
                                   "object-left-writable", "crash-between-records-and-replacement"]}


def source_left_only(ref_obs, after):
    """the two states differ only in workspace entries that exist after the re-run and not in the uninterrupted run,
    each a regular file holding the bytes of a cache object (a source that was never renamed away)"""
    if ref_obs["objs"] != after["objs"] or ref_obs["recs"] != after["recs"]:
        return False
    objbytes = {v[3] for v in after["objs"].values() if v[0] == "F"}
    extra = [k for k in after["ws"] if k not in ref_obs["ws"]]
    same = all(after["ws"].get(k) == v for k, v in ref_obs["ws"].items())
    return bool(extra) and same and all(after["ws"][k][0] == "F" and after["ws"][k][2] in objbytes for k in extra)


def extra_objects_only(ref_obs, after):
    """the two states differ only in cache objects that exist after the re-run and not in the uninterrupted run
    (objects whose records were removed before the kill: nothing refers to them, nothing is lost)"""
    if ref_obs["ws"] != after["ws"] or ref_obs["recs"] != after["recs"]:
        return False
    extra = [k for k in after["objs"] if k not in ref_obs["objs"]]
    return bool(extra) and all(after["objs"].get(k, [None])[0] == v[0] and after["objs"][k][3:] == v[3:] for k, v in ref_obs["objs"].items())


def classify(clause, ks):
    for k in CLAUSE_CLASS.get(clause, []):
        if k in ks:
            return k
    return None


# ---------------------------------------------------------------------------------------------------
# one kill
# ---------------------------------------------------------------------------------------------------
def one_kill(t, sc, canon, full, ref_obs, inject):
    d, w = t.copy()
    try:
        tf = os.path.join(d, "trace.txt")
        cn = Canon(w, canon.labels)
        rc, err = t.strace(w, tf, inject=inject)
        done, killed, raw, _ = parse_trace(tf, cn, injected=inject[0] if inject else None)
        was_killed = rc in (137, -9) or raw is not None
        if not was_killed:
            return {"inject": inject, "killed": False, "bad": [], "done": len(done)}
        ks = classes_of(done, killed, full)
        # P33 is about the record stores of track / carry-in (five saves, one after the other); a kill between the
        # record saves of another command explains nothing
        kind_ = (sc["cmd"][0] if "cmd" in sc else (sc["argv"][1] if len(sc.get("argv", [])) > 1 else ""))
        # P33 (any command that saves several record stores one after the other) is decided on the state as well: the
        # records the kill left ARE partial -- some entity has a path and lacks metadata, digest, method or text-or-binary
        if "partial-record-set" in ks and not records_partial(w):
            ks.remove("partial-record-set")
        # the same class decided on the STATE the kill left (robust against how the kernel / libc split a
        # file copy into system calls and against which thread's in-flight call the log shows last): a
        # workspace entry that holds a proper prefix of a cache object's bytes is a copy cut short
        post = observe(w)
        objbytes = [bytes.fromhex(v[3]) for v in post["objs"].values() if v[0] == "F" and v[3] not in ("!", "?")]
        for pth, e in post["ws"].items():
            if e[0] == "F" and e[2] not in ("!", "?"):
                wb = bytes.fromhex(e[2])
                if any(len(wb) < len(ob) and ob.startswith(wb) for ob in objbytes) and "crash-during-workspace-copy" not in ks:
                    ks.append("crash-during-workspace-copy")
        # P34 decided on the state as well: an intact object that is itself writable, or whose directory is (the kill
        # fell between the move into the cache and the chmod calls that end it, whatever call it preceded)
        state_p34 = "object-left-writable" not in ks and any(v[0] == "F" and (v[1] == "1" or v[2] == "1") for v in post["objs"].values())
        bad, loads = judge(t, w, ref_obs, sc)
        out = []
        for cl, what in bad:
            k = classify(cl, ks)
            # (decided on the state, the class explains a divergence only when nothing but permission bits differs)
            if k is None and state_p34 and cl == "rerun-diverges" and "[only-permission-bits]" in what:
                k = "object-left-writable"
            # P23 / P23b (records and content change in an order a re-run cannot repair) were written for track and
            # carry-in; for copy / move / remove / untrack they explain a divergence only when nothing was lost: the
            # source of a move left behind, or objects left in the cache that no record refers to any more
            if k in ("crash-between-records-and-content", "crash-between-records-and-replacement") and kind_ in ("move", "copy", "remove", "untrack") \
                    and cl == "rerun-diverges" and "[only-source-left]" not in what and "[only-extra-objects]" not in what:
                k = None

            out.append((cl, what, k))
        return {"inject": inject, "killed": True, "call": raw, "canon": killed, "done": len(done), "classes": ks + (["object-left-writable"] if state_p34 else []),
                "bad": out, "loads": loads}
    finally:
        C.rm_rf(d)


def reference_run(t):
    """uninterrupted run (traced) followed by recheck: canonical calls, crash points, final observation"""
    d, w = t.copy()
    try:
        tf = os.path.join(d, "trace.txt")
        hx, _ = labels_of(t.sc)
        cn = Canon(w, hx)
        rc, err = t.strace(w, tf)
        done, killed, raw, points = parse_trace(tf, cn)
        mid = strip(observe(w))
        t.xvc(w, "--skip-git", "file", "recheck")
        ref = strip(observe(w))
        return {"rc": rc, "err": err, "ops": done, "points": points, "ref": ref, "mid": mid, "canon": Canon(t.repo.root, hx)}
    finally:
        C.rm_rf(d)


# ---------------------------------------------------------------------------------------------------
# the check
# ---------------------------------------------------------------------------------------------------
def fmt_ops(ops):
    return [" ".join(str(x) for x in o if x is not None) for o in ops]


def sc_to_json(sc):
    j = dict(sc)
    j["setup"] = [[st[0], st[1], st[2].hex()] if st[0] == "W" else list(st) for st in sc["setup"]]
    if "cmd" in sc:
        j["cmd"] = list(sc["cmd"])
    return j


def sc_from_json(j):
    sc = dict(j)
    sc["setup"] = [("W", st[1], bytes.fromhex(st[2])) if st[0] == "W" else tuple(st) for st in j["setup"]]
    if "cmd" in j:
        sc["cmd"] = tuple(j["cmd"])
    return sc


def run(chk, replay=None):
    tier, rng = chk.tier, chk.rng
    C.known_findings = merged_known_findings()
    chk.cov["trusted_base"] = TRUSTED
    chk.assumptions += ["atomicity of rename/link/symlink/unlink and of small write(2) calls; SIGKILL at syscall entry (no power-loss model)",
                        "no concurrent user edits while a command runs; ideal hash (address = content) in the model, reference hashes in the oracle"]
    chk.proof()
    xvc = C.ensure_xvc()
    ecs_mod = os.path.join(C.REPO, "ecs", "src", "ecs", "mod.rs")
    fixed = os.path.exists(ecs_mod) and "write_atomically" in open(ecs_mod).read()
    chk.cov["fixed_P22_in_tree"] = fixed

    # jobs: (scenario, list of injections or None = sample the crash points of the reference run)
    jobs = []
    if replay:
        jobs.append((sc_from_json(replay["input"]["scenario"]), [tuple(replay["input"]["inject"])]))
    else:
        cdir = os.path.join(C.ROOT, "corpus", "C07")
        for f in sorted(os.listdir(cdir)) if os.path.isdir(cdir) else []:
            r = json.load(open(os.path.join(cdir, f)))
            sc = sc_from_json(r["input"]["scenario"])
            sc["name"] = "corpus:" + f[:-5]
            jobs.append((sc, [tuple(r["input"]["inject"])]))
        for sc in scenarios(rng, tier):
            jobs.append((sc, None))
        for sc in bring_scenarios(rng) + move_scenarios(rng):
            jobs.append((sc, None))
        if tier == "thorough":
            for sc in extra_scenarios(rng):
                jobs.append((sc, None))

    dist = {"scenarios": {}, "kills": 0, "not_killed": 0, "by_call": {}, "classes": {}, "effect_lists_compared": 0}
    reported = {}
    every = 1
    workers = 8 if tier == "quick" else 10
    model_cases, model_meta = [], []
    templates = []
    try:
        for sc, injections in jobs:
            t = Template(xvc, sc)
            templates.append(t)
            ref = reference_run(t)
            if ref["rc"] != 0 or "[ERROR]" in ref["err"] or "panicked" in ref["err"]:
                chk.fail("correspondence", "the uninterrupted run of scenario %s fails: %s" % (sc["name"], ref["err"][-300:]),
                         {"theorem_or_correspondence": "scenario %s" % sc["name"], "scenario": sc_to_json(sc)}, name="ref", has_input=False)
                continue
            # ---- tie (1): effect-list correspondence
            if "cmd" in sc and injections is None:
                names = sc["paths"]
                ids = {n: i + 1 for i, n in enumerate(names)}
                order = target_order(ref["ops"], names)
                model_cases.append((sc["setup"], reorder(sc["cmd"], order), ids, fixed))
                model_meta.append((sc, ref, ids))
            # ---- tie (2): crash points.  (syscall, K): K-th invocation of that syscall by a thread
            if injections is None:
                pts, seen = [], set()
                for name, k, pid, c in ref["points"]:
                    if (name, k) not in seen:
                        seen.add((name, k)); pts.append((name, k))
                pts = [p for i, p in enumerate(pts) if (i + chk.seed) % every == 0]
            else:
                # ("before", "<canonical call prefix>"): the first crash point of the reference run whose call matches
                pts = []
                for a, b in injections:
                    if a == "before":
                        hit = next(((nm, k) for nm, k, pid, c in ref["points"] if fmt_ops([c])[0].startswith(tuple(b.split("|")))), None)
                        if hit is None:
                            chk.fail("correspondence", "corpus scenario %s: no call `%s` in the uninterrupted run" % (sc["name"], b),
                                     {"theorem_or_correspondence": "corpus witness", "scenario": sc_to_json(sc)}, name="corpus", has_input=False)
                        else:
                            pts.append(hit)
                    else:
                        pts.append((a, int(b)))
            dist["scenarios"][sc["name"]] = {"calls": len(ref["ops"]), "crash_points": len(ref["points"]), "injected": len(pts)}
            with ThreadPoolExecutor(workers) as ex:
                results = list(ex.map(lambda inj: one_kill(t, sc, ref["canon"], ref["ops"], ref["ref"], inj), pts))
            for res in results:
                if not res["killed"]:
                    dist["not_killed"] += 1
                    continue
                dist["kills"] += 1
                cname = " ".join(str(x) for x in (res["canon"] or ()) if x is not None)
                key = cname.split(" ")[0] if cname else "?"
                dist["by_call"][key] = dist["by_call"].get(key, 0) + 1
                for k in res["classes"]:
                    dist["classes"][k] = dist["classes"].get(k, 0) + 1
                mutating = bool(res["canon"]) and res["canon"][0] != "other"
                chk.count((sc["name"], res["done"], cname), mutating)
                chk.cov["traces_validated_against_impl"] += 1
                if len(chk.cov["samples"]) < 5 and mutating and res["done"] > 0:
                    chk.sample({"scenario": sc["name"], "inject": list(res["inject"]), "killed_before": cname,
                                "calls_completed": res["done"], "classes": res["classes"], "violations": [b[0] for b in res["bad"]]})
                for clause, what, klass in res["bad"]:
                    sig = (clause, klass)
                    if sig in reported and (klass is not None or reported[sig] >= int(os.environ.get("C07_MAX_REPORTS", "3"))):
                        reported[sig] += 1
                        continue
                    reported[sig] = reported.get(sig, 0) + 1
                    chk.fail("oracle", "%s: scenario %s killed before `%s` (inject %s:%d, %d calls completed): %s" % (
                             clause, sc["name"], cname, res["inject"][0], res["inject"][1], res["done"], what),
                             {"input": {"scenario": sc_to_json(sc), "argv": t.argv, "inject": list(res["inject"])},
                              "killed_before": cname, "classes": res["classes"], "clause": clause},
                             name="kill", klass=klass)
        # ---- model evaluation and comparison of the effect lists
        if model_cases:
            outs, err = model_effects(model_cases)
            if outs is None:
                chk.fail("correspondence", "evaluation of the model's effect lists failed: " + err,
                         {"theorem_or_correspondence": "effects (Crash/Model.v) vs strace"}, name="model", has_input=False)
            else:
                for (sc, ref, ids), txt in zip(model_meta, outs):
                    names = {v: k for k, v in ids.items()}
                    _, by_bytes = labels_of(sc)
                    mops = parse_model_ops(txt or "", names, by_bytes)
                    rops = [c for c in ref["ops"] if c[1] != "storedir"]
                    dist["effect_lists_compared"] += 1
                    chk.count(("effects", sc["name"], tuple(fmt_ops(rops))), True)
                    if mops is None or fmt_ops(mops) != fmt_ops(rops):
                        mo, ro = fmt_ops(mops or []), fmt_ops(rops)
                        i = next((i for i, (x, y) in enumerate(zip(mo, ro)) if x != y), min(len(mo), len(ro)))
                        chk.fail("correspondence", "effect list of `%s` differs from the model at call %d: model %s, implementation %s" % (
                                 sc["name"], i, mo[i:i + 3], ro[i:i + 3]),
                                 {"theorem_or_correspondence": "effects (Crash/Model.v) vs strace of the serial run", "scenario": sc_to_json(sc),
                                  "model": mo, "observed": ro}, name="effects", has_input=False)
                    elif len(chk.cov["samples"]) < 8:
                        chk.sample({"scenario": sc["name"], "effect_list_agrees": len(rops), "first_calls": fmt_ops(rops)[:6]})
    finally:
        for t in templates:
            t.close()

    chk.cov["rule"] = ("one evaluation = one real kill of the xvc binary (SIGKILL injected by strace at the entry of the K-th invocation of one syscall) "
                       "followed by the full oracle, or one effect-list comparison model vs strace. non-trivial = the kill preceded a file-system mutating call "
                       "(or is an effect-list comparison); distinct by (scenario, number of mutating calls completed, canonical call the kill preceded). "
                       "quick: corpus (incl. the two P23b witnesses), then track, carry-in, recheck, recheck as symlink, track of duplicate content and track with the default method over "
                       "symlinked records on a 2-4 file repository with history, every crash point; "
                       "thorough: plus recheck with hardlink / --force, track with symlink, first track, track --recheck-method hardlink and carry-in of content that is already in the cache, "
                       "and (oracle only) copy, move, remove --from-cache, untrack, pipeline step new")
    chk.cov["distribution"] = dist
    chk.cov["exhaustive"] = False
    chk.cov["reported_classes"] = {"%s/%s" % k: v for k, v in reported.items()}
    return chk
