"""C02, companion: the LAYOUT of a cache address as a path (prefix / 3 hex / 3 hex / 58 hex / 0.<ext>).

`run_layout(chk, replay=None)` is called from vlib/c02.py (it registers no property of its own):

  1. gen/cache_layout.py regenerates coq/theories/Gen/CacheLayout.v from /repo (prefix table of HashAlgorithm, pushes and
     split points of XvcDigest::cache_dir, file-name and path format of XvcCachePath::new);
  2. Props/C02L.v is built and audited (layout_recognised, layout_is_documented, address_layout, parse_render,
     render_injective, prefixes_distinct, ...); its theorems are ADDED to the obligations of the calling check;
  3. correspondence: ~2000 (quick) generated (algorithm, digest, tracked path) cases through build/bin/layoutmodel (the
     extracted model with the layout read from the source) and through layoutdrv (the real XvcCachePath::new): the rendered
     path and the extension used must agree;
  4. oracle, written from the property text in Python: every path the REAL code rendered must be
     <b3|b2|s2|s3>/<3 hex>/<3 hex>/<58 hex>/0.<extension of the tracked path>, must be parsed by the model's parser for the
     DOCUMENTED layout back to the (algorithm, digest, extension) it was rendered from and re-render to itself;
  5. real runs: `xvc file track` under each of the four algorithms on files with awkward names; every file xvc leaves below
     .xvc/ outside its stores (and below a local storage after `file send`) must be parsed by the model's parser (documented
     and current layout), re-render to itself, carry the prefix of the configured algorithm, a digest that an independent
     hash implementation computes from the object's own bytes (as they are, or with CR/LF removed) and the extension of a
     tracked path with that content; every tracked file must have its object, identical content + extension ONE object.

Returns a dict of counts (also stored in chk.cov["layout"]); its key "replayed" is true when `replay` was a layout replay
(the caller then has nothing else to re-execute).  Disagreement model/implementation:
chk.fail("correspondence", ..., has_input=False); a real path that violates the documented layout: chk.fail("oracle", ...)
with the input ({"level": "layout", ...} / {"level": "layout-run", ...}; `run_layout(chk, replay)` re-executes it)."""
import os, hashlib
from concurrent.futures import ThreadPoolExecutor
from . import common as C
from .xvc import XvcRepo

TRUSTED = [
    "layout (Props/C02L.v): translator gen/cache_layout.py (regular expressions + symbolic evaluation of the split_at chain over "
    "core/src/types/{hashalgorithm.rs,xvcdigest/mod.rs,xvcpath.rs}) -> Gen/CacheLayout.v; a construct it does not recognise makes "
    "layout_recognised fail, a recognised but different one makes layout_is_documented fail",
    "layout: extraction (ExtrOcamlBasic only) + coq/extract/layout_driver.ml; harness/src/bin/layoutdrv.rs; vlib/c02l.py",
    "layout, modelled not verified: XvcDigest::{directory_prefix,hex_str,cache_dir}, XvcCachePath::new; of the crates outside /repo: "
    "strum's Display (prints the to_string attribute), hex::encode (lower case, two digits per byte), RelativePathBuf::push (a '/' "
    "between pieces), RelativePath::extension (Base.Bytes.extension) -- each validated by the correspondence on every run",
    "layout, abstracted: the hash functions (the digest is any 32 bytes); that objects are stored at this path is Props/C02.cas_invariant "
    "plus the re-hash oracle of vlib/repocheck.py",
]

ALGOS = ["blake3", "blake2s", "sha2", "sha3", "asis"]
CACHE_ALGOS = {"blake3": ("b3", "blake3"), "blake2s": ("b2", "blake2"), "sha2": ("s2", "sha2"), "sha3": ("s3", "sha3")}
DOC_PREFIX = {"blake3": "b3", "blake2s": "b2", "sha2": "s2", "sha3": "s3", "asis": "a0"}   # from the property text / the reference documentation

NAMES = ["a.txt", "data.csv", "Makefile", "README", ".hidden", ".hidden.cfg", "trailing.", "a.tar.gz", "x..y", "x...", "a.b.c.d.e",
         "my file.txt", "my file.my ext", "a. b", " .x", "sp ace", "é.txt", "数据.データ", "a.é", "naïve.ТХТ", "😀.😀", "UPPER.TXT", "Mixed.Tar.GZ",
         "a.0", "0.0", "0.", "a.-", "a._", "b3", "a.b3", "-.x", "a.x-y_z", "long." + "e" * 40, "q" * 80 + ".bin", "a.TXT ", "tab\there.t\tx",
         "a.t'x", 'a.t"x', "a.t\\x", "a.{b}", "a.[b]", "a.*", "a.?", "a.#", "a.%41", "a.b~", "~a.b", "a.b,c"]
DIRS = ["", "", "d/", "d/e/", "dir.d/", "dir.with.dots/sub/", "d e/", "é/", "a.txt/", ".git-like/", "x.y/z.w/"]
EXT_ALPHABET = list("abcxyzABZ019-_ ~+=@!$&()") + ["é", "ñ", "ж", "数", "データ", "😀", " ", "  "]


def hx(s):
    b = s.encode() if isinstance(s, str) else s
    return b.hex() if b else "-"


def unhx(h):
    return b"" if h == "-" else bytes.fromhex(h)


def py_ext(path):
    """the extension of a tracked path, written from the property text and the reference documentation of file names: the
    text after the last '.' of the last path component; none when there is no '.', or the only '.' leads the name"""
    name = path.rsplit("/", 1)[-1]
    stem, dot, ext = name.rpartition(".")
    if not dot or not stem:
        return ""
    return ext


def expected_path(algo, digest_hex, path):
    h = digest_hex.lower()
    return "%s/%s/%s/%s/0.%s" % (DOC_PREFIX[algo], h[:3], h[3:6], h[6:], py_ext(path))


def kind_of(path):
    e, k = py_ext(path), []
    name = path.rsplit("/", 1)[-1]
    if e == "":
        k.append("no_ext")
    if name.count(".") >= 2:
        k.append("multi_dot")
    if any(ord(c) > 127 for c in path):
        k.append("non_ascii")
    if " " in path:
        k.append("space")
    if "/" in path:
        k.append("nested")
    return k


def gen_digest(rng):
    k = rng.random()
    if k < 0.05:
        return bytes(32)
    if k < 0.1:
        return b"\xff" * 32
    if k < 0.2:     # leading zero nibbles / zero bytes around the split points (hex offsets 3 and 6 = bytes 1..3)
        b = bytearray(rng.getrandbits(8) for _ in range(32))
        for i in rng.sample(range(4), rng.randint(1, 4)):
            b[i] = rng.choice([0x00, 0x0a, 0xa0, 0x0f, 0xf0, 0x2f])
        return bytes(b)
    if k < 0.3:     # small nibbles everywhere: "0a" must not become "a"
        return bytes(rng.choice([0, 1, 9, 10, 15, 16, 0x2f, 0x5c]) for _ in range(32))
    if k < 0.4:     # real digests
        data = bytes(rng.getrandbits(8) for _ in range(rng.randint(0, 20)))
        return rng.choice([hashlib.sha256, hashlib.sha3_256, lambda d: hashlib.blake2s(d, digest_size=32)])(data).digest()
    return bytes(rng.getrandbits(8) for _ in range(32))


def gen_path(rng):
    k = rng.random()
    if k < 0.55:
        return rng.choice(DIRS) + rng.choice(NAMES)
    if k < 0.65:
        return rng.choice(DIRS) + "f"                                   # no extension at all
    stem = rng.choice(["f", "a.b", ".h", "数", "s p", "x."])
    ext = "".join(rng.choice(EXT_ALPHABET) for _ in range(rng.randint(0, 6)))
    return rng.choice(DIRS) + stem + "." + ext


def gen_cases(rng, n):
    cases = []
    # the corners first: every algorithm with the same digest and name; every name of the pool once
    z = bytes(range(32))
    for a in ALGOS:
        cases.append((a, z.hex(), "a.txt"))
        cases.append((a, z.hex(), "noext"))
    for nm in NAMES:
        cases.append((rng.choice(ALGOS[:4]), gen_digest(rng).hex(), rng.choice(DIRS) + nm))
    while len(cases) < n:
        a = rng.choice(ALGOS[:4]) if rng.random() < 0.95 else "asis"
        cases.append((a, gen_digest(rng).hex(), gen_path(rng)))
    return cases


# ---------------------------------------------------------------------------------------------------------
def render_both(model, drv, cases):
    rl = ["%s %s %s" % (a, d, hx(p)) for a, d, p in cases]
    ml = ["render cur %s %s %s" % (a, d, hx(p)) for a, d, p in cases]
    dl = ["render doc %s %s %s" % (a, d, hx(p)) for a, d, p in cases]
    rc, rout = C.run_lines(drv, rl, timeout=600)
    mout = dout = None
    if model:
        rc2, mout = C.run_lines(model, ml, timeout=600)
        rc3, dout = C.run_lines(model, dl, timeout=600)
    return rout, mout, dout


def parse_lines(model, mode, paths):
    """paths: list of str -> list of None | (algo, digest hex, ext bytes, rerendered bytes)"""
    rc, out = C.run_lines(model, ["parse %s %s" % (mode, hx(p)) for p in paths], timeout=600)
    res = []
    for i in range(len(paths)):
        f = out[i].split() if i < len(out) else ["<missing>"]
        if len(f) == 5 and f[0] == "ok":
            res.append((f[1], f[2] if f[2] != "-" else "", unhx(f[3]), unhx(f[4])))
        else:
            res.append(None)
    return res


def field_path(line):
    f = line.split()
    if len(f) == 3 and f[0] == "ok":
        try:
            return unhx(f[1]).decode("utf-8", "surrogateescape"), unhx(f[2]).decode("utf-8", "surrogateescape")
        except ValueError:
            return None
    return None


def oracle_case(case, rline, parsed_doc):
    """what is wrong, from the property text, with the path the real code rendered for this case (None = nothing)"""
    a, d, p = case
    got = field_path(rline)
    if got is None:
        return "XvcCachePath::new gave `%s` for algorithm %s, digest %s, tracked path %r" % (rline, a, d, p)
    want = expected_path(a, d, p)
    if got[0] != want:
        return "the address of (%s, %s, %r) is rendered as %r; the documented layout prefix/3/3/58/0.<ext> gives %r" % (a, d, p, got[0], want)
    if parsed_doc is not None:
        pr = parsed_doc
        if pr == "none":
            return "the path %r rendered for (%s, %s, %r) is not an address of the documented layout (the model's parser refuses it)" % (got[0], a, d, p)
        if (pr[0], pr[1], pr[2]) != (a, d, py_ext(p).encode()) or pr[3] != got[0].encode("utf-8", "surrogateescape"):
            return "the path %r rendered for (%s, %s, %r) parses to (%s, %s, %r)" % (got[0], a, d, p, pr[0], pr[1], pr[2])
    return None


def shrink_case(drv, model, case):
    """the simplest variant of a failing case that still fails the oracle"""
    a, d, p = case
    cands = []
    for pp in ["a.txt", "a", p.rsplit("/", 1)[-1], p]:
        for dd in ["00" * 32, bytes(range(32)).hex(), d]:
            if (a, dd, pp) not in cands:
                cands.append((a, dd, pp))
    rout, _, _ = render_both(None, drv, cands)
    for c, r in zip(cands, rout):
        if oracle_case(c, r, None):
            return c, r
    return case, None


def generated(chk, model, drv, replay_case=None):
    n = 2000 if chk.tier == "quick" else 20000
    cases = [replay_case] if replay_case else gen_cases(chk.rng, n)
    rout, mout, dout = render_both(model, drv, cases)
    real_paths = [(field_path(r) or ("", ""))[0] for r in rout]
    parsed = parse_lines(model, "doc", real_paths) if model else None
    dist = {"cases": len(cases), "algo": {}, "kinds": {}, "ext_empty": 0, "distinct_ext": 0, "ok": 0, "model_agrees": 0,
            "doc_model_agrees_with_text": 0, "parsed_back": 0, "oracle_failures": 0}
    exts = set()
    bad_o = bad_c = 0
    reported = set()
    for i, c in enumerate(cases):
        a, d, p = c
        r = rout[i] if i < len(rout) else "<missing>"
        dist["algo"][a] = dist["algo"].get(a, 0) + 1
        for k in kind_of(p):
            dist["kinds"][k] = dist["kinds"].get(k, 0) + 1
        exts.add(py_ext(p)); dist["ext_empty"] += py_ext(p) == ""
        dist["ok"] += r.startswith("ok ")
        pd = None
        if parsed is not None:
            pd = parsed[i] if parsed[i] is not None else "none"
            dist["parsed_back"] += pd != "none"
        what = oracle_case(c, r, pd)
        if what:
            dist["oracle_failures"] += 1
        if what and bad_o < 3 and dist["oracle_failures"] <= 20:
            sc, sr = shrink_case(drv, model, c)
            if sr is not None:
                what = oracle_case(sc, sr, None) or what
            if sc not in reported:
                reported.add(sc); bad_o += 1
                chk.fail("oracle", what, {"input": {"level": "layout", "algo": sc[0], "digest": sc[1], "path": sc[2]}, "implementation": sr or r,
                                          "found_with": {"algo": a, "digest": d, "path": p}}, name="layout")
        if mout is not None:
            m = mout[i] if i < len(mout) else "<missing>"
            if m == r:
                dist["model_agrees"] += 1
            elif bad_c < 3:
                bad_c += 1
                chk.fail("correspondence", "layoutmodel (layout read from the source) and layoutdrv (XvcCachePath::new) differ on algorithm %s digest %s tracked path %r: model %s, implementation %s"
                         % (a, d, p, m, r), {"theorem_or_correspondence": "Props/C02L address_layout / parse_render; layoutmodel vs layoutdrv",
                                             "case": {"algo": a, "digest": d, "path": p}, "model": m, "implementation": r}, name="layoutcorr", has_input=False)
            # the model of the DOCUMENTED layout against the expectation written in Python from the property text
            dm = dout[i] if i < len(dout) else "<missing>"
            fp = field_path(dm)
            if fp is not None and fp[0] == expected_path(a, d, p):
                dist["doc_model_agrees_with_text"] += 1
            elif bad_c < 3:
                bad_c += 1
                chk.fail("correspondence", "documented_layout of Layout/Model.v renders (%s, %s, %r) as %s, the property text gives %r" % (a, d, p, dm, expected_path(a, d, p)),
                         {"theorem_or_correspondence": "Layout/Model.documented_layout vs the property text", "case": {"algo": a, "digest": d, "path": p}},
                         name="layoutdoc", has_input=False)
        if i < 2:
            chk.sample({"layout_case": {"algo": a, "digest": d, "path": p}, "implementation": (field_path(r) or [r])[0],
                        "model": (field_path(mout[i]) or [mout[i]])[0] if mout else None})
    dist["distinct_ext"] = len(exts)
    return dist


# ---------------------------------------------------------------------------------------------------------
# real runs
# ---------------------------------------------------------------------------------------------------------
# (a name whose LAST character is not ASCII makes `xvc file track` panic in walker/src/pattern.rs:144 -- byte slicing of the
#  ignore rule written for the file --: a defect outside this property, reported to the coordinator; such names are used in
#  the generated cases above, which do not run the command, and avoided here)
RUN_FILES = {
    "a.txt": b"alpha\n", "d/b.tar.gz": b"\x1f\x8b\x00binary\x00", "Makefile": b"all:\n\ttrue\n", ".hidden": b"dot\n", "trail.": b"trailing dot\n",
    "d e/my file.my ext": b"blanks\n", "é/数据.データ1": b"non-ascii\n", "x..y": b"double dot\n",
    "dup1.txt": b"same bytes\r\n", "sub/dup2.txt": b"same bytes\r\n", "same.csv": b"same bytes\r\n", "crlf.TXT": b"l1\r\nl2\r\n", "lf.TXT": b"l1\nl2\n",
    "empty.bin": b"", "dir.d/noext": b"in a dotted directory\n",
}


def objects_below(top, skip_top=()):
    out = {}
    for dp, dn, fn in os.walk(top):
        if dp == top:
            dn[:] = [x for x in dn if x not in skip_top]
            continue
        for f in fn:
            p = os.path.join(dp, f)
            if os.path.isfile(p) and not os.path.islink(p):
                with open(p, "rb") as fh:
                    out[os.path.relpath(p, top)] = fh.read()
    return out


def real_run(xvc, algo, files, with_storage):
    rp = XvcRepo(xvc, prefix="c02l", git=False)
    try:
        for p, b in files.items():
            rp.write(p, b)
        cfg = ["--skip-git", "-c", "cache.algorithm=" + CACHE_ALGOS[algo][1]]
        r = rp.xvc(*(cfg + ["file", "track", "--no-parallel"] + sorted(files)))   # serial: the parallel race on identical content is finding P44
        res = {"algo": algo, "failed": bool(r.failed), "err": (r.err or "")[-300:], "storage": None}
        res["cache"] = objects_below(os.path.join(rp.root, ".xvc"), skip_top=("store", "ec"))
        if with_storage and not r.failed:
            st = os.path.join(rp.base, "st")
            r1 = rp.xvc(*(cfg + ["storage", "new", "local", "--name", "L", "--path", st]))
            r2 = rp.xvc(*(cfg + ["file", "send", "--to", "L"]))
            if not r1.failed and not r2.failed:
                so = {}
                for guid in sorted(os.listdir(st)) if os.path.isdir(st) else []:
                    if os.path.isdir(os.path.join(st, guid)):
                        so.update(objects_below(os.path.join(st, guid)))     # <storage>/<repository guid>/<cache path>
                res["storage"] = so
        return res
    finally:
        rp.cleanup()


def text_ok(p, data, files, tag):
    """is p, from the property text alone, the address of an object with these bytes under the algorithm with prefix `tag`?"""
    from . import repo as R
    comps = p.split("/")
    wants = {R.ref_hash(tag, data), R.ref_hash(tag, R.strip_crlf(data))}
    exts = {py_ext(f) for f, b in files.items() if b == data}
    return (len(comps) == 5 and comps[0] == tag and len(comps[1]) == 3 and len(comps[2]) == 3 and len(comps[3]) == 58
            and (comps[1] + comps[2] + comps[3]) in wants and comps[4].startswith("0.") and comps[4][2:] in exts), wants, exts


def check_run(chk, model, res, files, dist, xvc=None):
    from . import repo as R

    def report(*a, **kw):      # at most 3 reports from the real runs; the rest is counted
        dist["failures_seen"] += 1
        if dist["failures_seen"] <= 3:
            chk.fail(*a, **kw)
    algo = res["algo"]
    tag = CACHE_ALGOS[algo][0]
    inp = {"level": "layout-run", "algo": algo, "files": {k: v.hex() for k, v in files.items()}}
    if res["failed"]:
        report("correspondence", "`xvc file track` under %s failed in the layout run: %s" % (algo, res["err"]),
                 {"theorem_or_correspondence": "layout real run"}, name="layoutrun", has_input=False)
        return
    for where, objs in (("cache", res["cache"]), ("storage", res["storage"] or {})):
        paths = sorted(objs)
        pdoc = parse_lines(model, "doc", paths) if model else [None] * len(paths)
        pcur = parse_lines(model, "cur", paths) if model else [None] * len(paths)
        for p, d, c in zip(paths, pdoc, pcur):
            dist["objects_" + where] += 1
            data = objs[p]
            # from the property text, without the model
            ok_text, wants, exts = text_ok(p, data, files, tag)
            if not ok_text:
                inp2 = inp
                small = {f: b for f, b in files.items() if b == data}
                if xvc and small and len(small) < len(files) and dist["failures_seen"] < 3:      # shrink to the files with that content
                    r2 = real_run(xvc, algo, small, False)
                    if not r2["failed"] and any(not text_ok(p2, d2, small, tag)[0] for p2, d2 in r2["cache"].items()):
                        inp2 = dict(inp, files={k: v.hex() for k, v in small.items()})
                report("oracle", "after `xvc file track` under %s the %s holds a file at %r: not <%s>/<3 hex>/<3 hex>/<58 hex>/0.<ext> of the digest of its own bytes (%s) and the extension of a tracked path with that content (%s)"
                       % (algo, where, p, tag, " or ".join(sorted(wants)), sorted(exts)), {"input": inp2, "object": p}, name="layoutrun")
                continue
            if not model:
                continue
            if d is None:
                report("oracle", "the %s path %r left by `xvc file track` under %s is refused by the parser of the documented layout" % (where, p, algo),
                         {"input": inp, "object": p}, name="layoutrun")
                continue
            if c is None or c[3] != p.encode() or d[3] != p.encode() or (d[0], d[1], d[2]) != (c[0], c[1], c[2]):
                report("correspondence", "the %s path %r left by `xvc file track` under %s: parser of the current layout gives %s, of the documented layout %s" % (where, p, algo, c, d),
                         {"theorem_or_correspondence": "Props/C02L parse_render / parse_sound on observed paths", "object": p}, name="layoutruncorr", has_input=False)
                continue
            if d[0] != algo or d[1] not in wants or d[2].decode("utf-8", "replace") not in exts:
                report("oracle", "the %s path %r parses to (%s, %s, %r): expected algorithm %s, a digest of the object's own bytes and the extension of a tracked path with that content"
                         % (where, p, d[0], d[1], d[2], algo), {"input": inp, "object": p}, name="layoutrun")
                continue
            dist["parsed_and_rerendered"] += 1
    # every tracked file has its object; identical content + extension share ONE object
    want_objs = set()
    for f, b in files.items():
        tb = R.strip_crlf(b) if R.is_text(b) else b
        want_objs.add(expected_path(algo, R.ref_hash(tag, tb), f))
    have = set(res["cache"])
    if want_objs != have:
        report("oracle", "after `xvc file track` under %s of %d files the cache holds %d objects, expected %d (one per distinct content + extension): missing %s, unexpected %s"
                 % (algo, len(files), len(have), len(want_objs), sorted(want_objs - have)[:3], sorted(have - want_objs)[:3]), {"input": inp}, name="layoutrun")
    else:
        dist["runs_with_expected_object_set"] += 1
    if res["storage"] is not None:
        dist["storage_runs"] += 1
        if set(res["storage"]) != have:
            report("oracle", "after `xvc file send` under %s the storage holds %s, the cache %s" % (algo, sorted(set(res["storage"]) - have)[:3], sorted(have - set(res["storage"]))[:3]),
                     {"input": inp}, name="layoutrun")


def real_runs(chk, model, xvc, replay_run=None):
    dist = {"runs": 0, "objects_cache": 0, "objects_storage": 0, "parsed_and_rerendered": 0, "runs_with_expected_object_set": 0, "storage_runs": 0,
            "failures_seen": 0}
    if replay_run:
        jobs = [(replay_run["algo"], {k: bytes.fromhex(v) for k, v in replay_run["files"].items()}, True)]
    else:
        jobs = [(a, dict(RUN_FILES), a in ("blake3", "sha2")) for a in CACHE_ALGOS]
        if chk.tier != "quick":
            for i in range(8):
                a = chk.rng.choice(sorted(CACHE_ALGOS))
                fs = {}
                for _ in range(chk.rng.randint(3, 10)):
                    p = gen_path(chk.rng)
                    if any(c in p for c in "*?[]{}\\\t'\",#") or p.rsplit("/", 1)[-1] in ("", ".", "..") or p.endswith(" ") or p.startswith((" ", "-", "~")) or ord(p[-1]) > 127:
                        continue
                    if any(q == p or q.startswith(p + "/") or p.startswith(q + "/") for q in fs):
                        continue
                    fs[p] = bytes(chk.rng.getrandbits(8) for _ in range(chk.rng.randint(0, 40)))
                if fs:
                    jobs.append((a, fs, False))
    with ThreadPoolExecutor(4) as ex:
        results = list(ex.map(lambda j: real_run(xvc, j[0], j[1], j[2]), jobs))
    for (a, fs, _), res in zip(jobs, results):
        dist["runs"] += 1
        check_run(chk, model, res, fs, dist, xvc)
    return dist


# ---------------------------------------------------------------------------------------------------------
def _add_obligations(chk, a, defer=True):
    """adds the audit of Props/C02L.v to the obligations of the calling check, whether its own chk.proof() has run or not
    (chk.proof() ASSIGNS the counters: when it has not run yet and `defer` is set, the addition is made right after it)"""
    def add():
        chk.cov["obligations"] = chk.cov.get("obligations", 0) + a["obligations"]
        chk.cov["discharged"] = chk.cov.get("discharged", 0) + a["discharged"]
        chk.cov["theorems"] = list(chk.cov.get("theorems", [])) + ["C02L." + t for t in a["theorems"]]
        rep = dict(chk.cov.get("assumption_report", {}))
        rep.update({"C02L." + k: v[:200] for k, v in a["assumptions"].items()})
        chk.cov["assumption_report"] = rep
        chk.cov["trusted_base"] = [t for t in chk.cov.get("trusted_base", []) if t not in TRUSTED] + TRUSTED
        if "Props/C02L.vo" not in chk.cov.get("checker_cmd", ""):
            chk.cov["checker_cmd"] = (chk.cov.get("checker_cmd", "") + " ; the same for theories/Props/C02L.vo").strip(" ;")
    if hasattr(chk, "audit") or not defer:
        add()
        return
    orig = chk.proof

    def proof(*args, **kw):
        r = orig(*args, **kw)
        add()
        chk.proof = orig
        return r
    chk.proof = proof


def run_layout(chk, replay=None):
    out = {}
    inp = (replay or {}).get("input", {}) if replay else {}
    if replay and not str(inp.get("level", "")).startswith("layout"):
        return out
    first_failure = len(chk.failures)
    # 1. the table, from the source
    rc, txt = C.sh(["python3", os.path.join(C.ROOT, "gen", "cache_layout.py"), C.REPO], timeout=60)
    C.log(txt.strip())
    out["table"] = txt.strip()
    if rc != 0:
        chk.fail("correspondence", "gen/cache_layout.py failed: " + txt[-300:], {"theorem_or_correspondence": "translator gen/cache_layout.py"},
                 name="layoutgen", has_input=False)
    # 2. the obligations
    a = C.proof_audit("C02L")
    out["obligations"], out["discharged"], out["theorems"] = a["obligations"], a["discharged"], a["theorems"]
    _add_obligations(chk, a, defer=not replay)      # a layout replay is the whole run: the caller returns without its own audit
    proof_failures = []
    for p in a["problems"]:
        f = C.Failure("proof", "Props/C02L.v: " + p, None, has_input=False)
        chk.failures.append(f); proof_failures.append(f)
    if chk.tier == "thorough" and not a["problems"]:
        ok, log = C.coqchk("C02L")
        out["coqchk"] = log[-300:]
        if not ok:
            chk.failures.append(C.Failure("proof", "coqchk of Props/C02L failed: " + log[-300:], None, has_input=False))
    # 3. builds (the model does not depend on the Props file: it is built also when an obligation broke)
    model = None
    try:
        model = C.ensure_model("Layout", ["Base", "Layout", os.path.join("Gen", "CacheLayout.v")])
    except Exception as e:   # noqa
        C.log("layoutmodel not available: %s" % e)
        chk.fail("correspondence", "layoutmodel could not be built: " + str(e)[-300:], {"theorem_or_correspondence": "build of the extracted model"},
                 name="layoutbuild", has_input=False)
    drv = C.ensure_harness(["layoutdrv"])["layoutdrv"]
    if model:
        rc, rec = C.run_lines(model, ["recognised", "table cur", "table doc"])
        out["model_table"] = rec
    # 4. generated cases, 5. real runs
    if inp.get("level") == "layout-run":
        out["real_runs"] = real_runs(chk, model, C.ensure_xvc(), inp)
    elif inp.get("level") == "layout":
        out["generated"] = generated(chk, model, drv, (inp["algo"], inp["digest"], inp["path"]))
    else:
        out["generated"] = generated(chk, model, drv)
        out["real_runs"] = real_runs(chk, model, C.ensure_xvc())
    # a broken obligation with a concrete failing input found above is reported with that input
    mine = chk.failures[first_failure:]
    wit = next((g for g in mine if g.kind == "oracle" and g.replay), None)
    if wit is not None:
        for f in proof_failures:
            f.has_input, f.replay = True, wit.replay
    out["failures"] = len(mine)
    out["replayed"] = bool(replay)
    chk.cov["layout"] = {k: v for k, v in out.items() if k != "theorems"}
    return out
