"""C02 — cache objects are content-addressed and immutable.
proof (Props/C02.v) + correspondence repomodel (extracted M-REPO) vs the real xvc binary + an oracle
that re-hashes every cache object after every item with hash implementations independent of xvc's."""
import os, json
from . import common as C, repo as R, repocheck as K


def oracle(sc):
    """list of (item index, what, class) for the real observations of a scenario"""
    bad = []
    prev = None
    for j, o in enumerate(sc.robs):
        it = sc.eff[j]
        after_panic = o["oc"] == "Panic"
        for v in R.cas_check(o):
            klass = None
            if "not a regular file" in v:
                klass = "symlink-moved-into-cache"
            if after_panic and ("writable" in v):
                klass = "left-writable-after-panic"
            bad.append((j, v, klass))
        if prev is not None:
            for a, e in o["objs"].items():
                pe = prev["objs"].get(a)
                if pe is not None and pe[0] == "F" and e[0] == "F" and pe[3] != e[3]:
                    same_form = R.strip_crlf(bytes.fromhex(pe[3])) == R.strip_crlf(bytes.fromhex(e[3]))
                    bad.append((j, "bytes of object %s changed from %s to %s" % (a, pe[3][:40], e[3][:40]),
                                "alias-object-swapped" if same_form else None))
        prev = o
        if after_panic:
            break
    return bad


def nontrivial(sc):
    """the history creates >= 2 objects and re-touches an existing address"""
    if not sc.robs:
        return False
    n = max(len(o["objs"]) for o in sc.robs)
    seen, retouch = set(), False
    for j, it in enumerate(sc.eff):
        if it[0] in ("track", "carry"):
            for p in it[2]:
                b = K.contents_before(sc.robs, j, p)
                if b is not None:
                    key = (R.ext_of(p), R.strip_crlf(b))
                    retouch = retouch or key in seen
                    seen.add(key)
    return n >= 2 and retouch


def run(chk, replay=None):
    chk.cov["trusted_base"] = K.REPO_TRUSTED
    chk.assumptions += ["ideal hash functions in the model; the oracle recomputes BLAKE3 (reference implementation), BLAKE2s, SHA-256, SHA3-256 over the bytes and over the CR/LF-stripped bytes"]
    chk.proof()
    model = C.ensure_model("Repo", ["Base", "Repo"])
    xvc = C.ensure_xvc()
    scs = []
    if replay:
        scs = [K.from_replay(replay)]
    else:
        cdir = os.path.join(C.ROOT, "corpus", "C02")
        for f in sorted(os.listdir(cdir)) if os.path.isdir(cdir) else []:
            scs.append(K.from_replay(json.load(open(os.path.join(cdir, f))), len(scs)))
        n = 60 if chk.tier == "quick" else 700
        for i in range(n):
            cfg, items = R.gen_history(chk.rng)
            scs.append(K.Scenario(len(scs), cfg, items, parallel=(i % 2 == 1)))
    K.run_scenarios(xvc, scs)
    dist = {"items": 0, "track": 0, "carry": 0, "recheck": 0, "user": 0, "panics": 0, "errors": 0, "parallel": 0}
    reported = 0
    for sc in scs:
        chk.count(json.dumps(K.to_replay(sc), sort_keys=True), nontrivial(sc))
        dist["parallel"] += sc.parallel
        for it, o in zip(sc.eff, sc.robs):
            dist["items"] += 1
            dist[it[0] if it[0] in ("track", "carry", "recheck") else "user"] += 1
            dist["panics"] += o["oc"] == "Panic"; dist["errors"] += o["oc"] == "Err"
        bad = oracle(sc)
        if bad and reported < 4:
            j, what, klass = bad[0]
            s2 = sc
            if klass is None and not replay:
                s2 = K.shrink_scenario(xvc, sc, lambda s: any(k is None for _, _, k in oracle(s)))
                b2 = [b for b in oracle(s2) if b[2] is None]
                if b2:
                    j, what, klass = b2[0]
            chk.fail("oracle", what, dict(K.to_replay(s2), failing_item=j, kind="impl-history"), name="cas", klass=klass)
            reported += klass is None
            continue
        mm = K.check_correspondence(chk, model, sc)
        if mm and reported < 4:
            chk.fail("correspondence", "model and implementation differ at item %d: %s" % (mm["item"], "; ".join(mm["diffs"][:3])),
                     dict(K.to_replay(sc), failing_item=mm["item"], diffs=mm["diffs"],
                          theorem_or_correspondence="cas_invariant / objects_readonly / objects_immutable; correspondence repomodel vs xvc"),
                     name="corr", klass=mm["klass"], has_input=False)
            reported += mm["klass"] is None
    for sc in scs[:2] + scs[-1:]:
        chk.sample(K.to_replay(sc))
    chk.cov["distribution"] = dist
    chk.cov["rule"] = ("random histories (1-3 paths from a pool of shapes incl. nested, no extension, blanks, non-ASCII, dotfile, double extension; contents from a pool incl. empty, CR/LF mixes, NUL at byte 7999/8000, duplicates; "
                       "4 algorithms, 4 methods, 3 text-or-binary modes; user write / write-through / delete / touch and track / carry-in / recheck with their options; half of the runs with --no-parallel); after EVERY item all cache objects are re-hashed. "
                       "non-trivial = the history creates >= 2 objects and re-touches an existing address; distinct by the whole history")
    return chk
