"""C02 -- cache objects are content-addressed and immutable.
proof (Props/C02.v) + correspondence repomodel (extracted M-REPO) vs the real xvc binary + an oracle
that after EVERY item re-hashes every cache object with hash implementations independent of xvc's
(reference BLAKE3, hashlib), checks the address layout, the modes, bytes and inodes of pre-existing
objects, and that duplicates are stored once."""
import os
from . import common as C, repo as R, repocheck as K


def nontrivial(sc):
    """the history creates >= 2 objects and re-touches an existing address"""
    if not sc.robs:
        return False
    n = max(len(o["objs"]) for o in sc.robs)
    seen, retouch = set(), False
    for j, it in enumerate(sc.eff):
        if it[0] in ("track", "carry"):
            for p in it[2]:
                b = K.contents_before(sc.robs, j, p)
                if b is not None:
                    key = (R.ext_of(p), R.strip_crlf(b))
                    retouch = retouch or key in seen
                    seen.add(key)
    return n >= 2 and retouch


def gen(rng, idx):
    cfg, items = R.gen_history(rng)
    cfg = dict(cfg, algo=list(R.ALGOS)[idx % 4])
    return cfg, items


def failed_copy_probe(chk):
    """a commit whose workspace file cannot be renamed into the cache (it has another hard link: the content is copied)
    and whose copy FAILS half way (file size limit): no partial object may sit at the final address afterwards.
    Oracle only."""
    import subprocess
    from .xvc import XvcRepo
    xvc = C.ensure_xvc()
    with XvcRepo(xvc, prefix="c02fc", git=False) as rp:
        data = (b"0123456789abcdef" * 65536) * 3          # 3 MiB
        rp.write("big.bin", data)
        os.link(rp.path("big.bin"), os.path.join(rp.base, "backup-of-big.bin"))
        e = dict(C.BASE_ENV); e.update(rp.env)
        cmd = "ulimit -f 1024; trap '' XFSZ; exec %s --skip-git file track big.bin" % xvc
        subprocess.run(["bash", "-c", cmd], cwd=rp.root, env=e, stdout=subprocess.PIPE, stderr=subprocess.PIPE, timeout=300)
        o = R.observe_real(rp.root, "Ok")
        bad = [v for v in R.cas_check(o) if "is writable" not in v and "unexpected file" not in v]
        chk.count(("failed-copy",), True)
        if bad:
            chk.fail("oracle", "a commit whose copy into the cache failed (file size limit, hard-linked source) left: " + "; ".join(bad[:2]),
                     {"input": {"kind": "failed-copy-probe"}}, name="failedcopy")
            return
        # (that a retry of the failed track commits the content after all is NOT asked here: track saves its records
        #  before the content moves -- the open finding P23 of C07 -- so the retry finds nothing to do)


def ext_portion(chk):
    """the same oracle (every object at the address of its own bytes, read-only, in a read-only directory; bytes and
    inodes of existing objects unchanged) after every item of histories with copy, move, remove and untrack -- the
    commands of the property's quantifier that the core model does not have (model side: Repo/Ext*.v through C19 / C05)"""
    import json
    from . import common as C, repoext as X
    xvc = C.ensure_xvc()
    flags = X.flags_from_source()
    n = 30 if chk.tier == "quick" else 300
    scs = []
    cdir = os.path.join(C.ROOT, "corpus", "C02", "ext")          # witnesses in the format of the Ext histories run first
    for fn in sorted(os.listdir(cdir)) if os.path.isdir(cdir) else []:
        if fn.endswith(".json"):
            scs.append(X.from_replay(json.load(open(os.path.join(cdir, fn))), len(scs)))
    for i in range(n):
        cfg, items = X.gen_history(chk.rng, "copy" if i % 2 else "remove", fixed_p3=flags[5] == "1")
        scs.append(X.Scenario(len(scs), cfg, items))
    X.run_scenarios(xvc, scs, threads=10 if chk.tier == "quick" else 14)
    reported, nitems = 0, 0
    for sc in scs:
        chk.count(("ext", json.dumps(X.to_replay(sc), sort_keys=True)), True)
        prev = None
        for j, (it, o) in enumerate(zip(sc.eff, sc.robs)):
            nitems += 1
            bad = list(R.cas_check(o))
            if prev is not None:
                for a, e in prev["objs"].items():
                    c = o["objs"].get(a)
                    if c is not None and c[3] != e[3]:
                        bad.append("%s changed the bytes of the existing object %s" % (it[0], a))
            prev = o
            if o.get("oc") == "Panic":
                break           # a panicking command is judged by the property it belongs to
            if bad and reported < 3:
                reported += 1
                s2 = X.shrink_scenario(xvc, sc, lambda s_: any(R.cas_check(x) for x in (s_.robs or [])))
                chk.fail("oracle", "after `%s %s`: %s" % (it[0], " ".join(map(str, it[2:])) if len(it) > 2 else "", "; ".join(bad[:3])),
                         dict(X.to_replay(s2), failing_item=j, kind="impl-history", portion="ext"), name="extcas")
                break
    chk.cov.setdefault("distribution", {})["ext_histories"] = {"scenarios": len(scs), "items": nitems}


def run(chk, replay=None):
    chk.assumptions += ["ideal hash functions in the model; the oracle recomputes BLAKE3 (reference implementation), BLAKE2s, SHA-256, "
                        "SHA3-256 over the bytes and over the CR/LF-stripped bytes"]
    # the address LAYOUT (prefix / 3 / 3 / 58 / 0.<ext>) in Coq, tied to the source: Props/C02L.v over Layout/*, the
    # table regenerated by gen/cache_layout.py, layoutmodel vs the real XvcCachePath::new (vlib/c02l.py)
    from . import c02l
    if c02l.run_layout(chk, replay).get("replayed"): return chk
    if replay and replay.get("portion") == "ext":
        from . import repoext as X
        chk.proof()
        xvc = C.ensure_xvc()
        sc = X.from_replay(replay)
        X.run_scenarios(xvc, [sc], threads=1)
        for j, o in enumerate(sc.robs or []):
            bad = R.cas_check(o)
            if bad:
                chk.fail("oracle", "after item %d: %s" % (j, "; ".join(bad[:3])), dict(X.to_replay(sc), failing_item=j, kind="impl-history", portion="ext"), name="extcas")
                break
        return chk
    res = K.drive(chk, replay, "C02", gen, K.c02_oracle, nontrivial, n_quick=120, n_thorough=500,
                   rule=("random histories (1-3 paths from a pool of shapes incl. nested, no extension, blanks, non-ASCII, dotfile, double extension; "
                         "contents from a pool incl. empty, CR/LF mixes, NUL at byte 7999/8000/8001, duplicates; 4 algorithms cycled, 4 methods, "
                         "3 text-or-binary modes; user write / write-through / delete / touch and track / carry-in / recheck with their options; "
                         "odd histories parallel, even ones --no-parallel); after EVERY item all cache objects are re-hashed, layout prefix/3/3/58/0.ext, "
                         "modes, bytes+inode of pre-existing objects, one object per content. "
                         "non-trivial = the history creates >= 2 objects and re-touches an existing address; distinct by the whole history"),
                   theorems="cas_invariant(_x) / objects_readonly_files(_x) / directories_readonly(_x) / objects_immutable(_x) / cache_monotone(_x) / C02_cas_full_fixed / C02_readonly_full_fixed / relink_class_empty_when_fixed")
    if not replay:
        ext_portion(chk)
        failed_copy_probe(chk)
    return res
