"""C02 -- cache objects are content-addressed and immutable.
proof (Props/C02.v) + correspondence repomodel (extracted M-REPO) vs the real xvc binary + an oracle
that after EVERY item re-hashes every cache object with hash implementations independent of xvc's
(reference BLAKE3, hashlib), checks the address layout, the modes, bytes and inodes of pre-existing
objects, and that duplicates are stored once."""
from . import common as C, repo as R, repocheck as K


def nontrivial(sc):
    """the history creates >= 2 objects and re-touches an existing address"""
    if not sc.robs:
        return False
    n = max(len(o["objs"]) for o in sc.robs)
    seen, retouch = set(), False
    for j, it in enumerate(sc.eff):
        if it[0] in ("track", "carry"):
            for p in it[2]:
                b = K.contents_before(sc.robs, j, p)
                if b is not None:
                    key = (R.ext_of(p), R.strip_crlf(b))
                    retouch = retouch or key in seen
                    seen.add(key)
    return n >= 2 and retouch


def gen(rng, idx):
    cfg, items = R.gen_history(rng)
    cfg = dict(cfg, algo=list(R.ALGOS)[idx % 4])
    return cfg, items


def run(chk, replay=None):
    chk.assumptions += ["ideal hash functions in the model; the oracle recomputes BLAKE3 (reference implementation), BLAKE2s, SHA-256, "
                        "SHA3-256 over the bytes and over the CR/LF-stripped bytes"]
    return K.drive(chk, replay, "C02", gen, K.c02_oracle, nontrivial, n_quick=120, n_thorough=800,
                   rule=("random histories (1-3 paths from a pool of shapes incl. nested, no extension, blanks, non-ASCII, dotfile, double extension; "
                         "contents from a pool incl. empty, CR/LF mixes, NUL at byte 7999/8000/8001, duplicates; 4 algorithms cycled, 4 methods, "
                         "3 text-or-binary modes; user write / write-through / delete / touch and track / carry-in / recheck with their options; "
                         "odd histories parallel, even ones --no-parallel); after EVERY item all cache objects are re-hashed, layout prefix/3/3/58/0.ext, "
                         "modes, bytes+inode of pre-existing objects, one object per content. "
                         "non-trivial = the history creates >= 2 objects and re-touches an existing address; distinct by the whole history"),
                   theorems="cas_invariant / objects_readonly_files / directories_readonly / objects_immutable / cache_monotone")
