"""C12 — steps re-run exactly when something they depend on changed.

proof (Props/C12.v over Inval/Model.v, with Gen/DiffTables.v regenerated from /repo first)
+ correspondence: real pipelines run by the hook-instrumented xvc binary in scratch repositories, a sequence of
  `xvc pipeline run`s interleaved with edits; the set of step commands executed in each run (journal written by
  the commands themselves) must be one of the sets the extracted model (build/bin/invalmodel, every schedule)
  allows from the records the model itself carried over from the previous runs
+ oracle written from the property text, judging the journals directly (independent of the model).
"""
import os, re, json, fnmatch, time, copy, sqlite3, functools, tempfile
from concurrent.futures import ThreadPoolExecutor
from . import common as C
from .xvc import XvcRepo

T0 = 1_600_000_000 * 10 ** 9
SEC = 10 ** 9

TRUSTED = [
    "Coq 8.16.1 kernel, coqc; vm_compute in Examples and *_refuted witnesses only; no native_compute",
    "axioms: none (Print Assumptions: Closed under the global context for every theorem of Props/C12.v)",
    "extraction: ExtrOcamlBasic only; ocamlfind ocamlopt 4.13.1; coq/extract/common.ml + inval_driver.ml (parsing, printing, sort_uniq of printed outcomes)",
    "table extraction: harness/src/bin/tabledrv.rs executes the real update_with_actual / apply_diff / Diff::changed over their case space; and the real GlobDep::diff_superficial / GlobDep::diff_thorough over (paths digest, metadata digest, content digest) same/different (records built by serde from chosen digests): the switch fixed_P73 of the model is read off that table; gen/difftables.py (regular expressions over pipeline/src/pipeline/mod.rs for the RunConditions triples, the end-of-run guard and flags, the two source facts separating the code before/after the repair of P15, and over deps/mod.rs:dependencies_to_path for 'the graph is built without the path-metadata provider')",
    "correspondence machinery: vlib/c12.py (scenario generator, simulated file map, per-kind fingerprint abstraction fp_code, journal reader), vlib/xvc.py, the hook-instrumented xvc binary (XVC_VERIF_JITTER only varies schedules)",
    "modelled, not verified: pipeline/src/pipeline/mod.rs step_state_handler / s_* decision functions and the end of the_grand_pipeline_loop as Inval/Model.v; the dependency kinds are abstracted to (superficial, thorough) fingerprints computed by vlib/c12.py:fp_code from deps/{file,glob,glob_items,param,lines,line_items,regex,regex_items,generic,sqlite_query}.rs (url is not covered: offline) and validated kind by kind by the correspondence (that GlobDep::update_content_digest covers the member names is validated by the rename edits only); regex / YAML parsing, hashing, the notify watcher behind XvcPathMetadataProvider, the process pool are not modelled",
    "environment assumptions: edits_visible (every edit the runner makes changes size or mtime; mtimes are set explicitly with os.utime, xvc compares size + SystemTime mtime at ns granularity); step commands write only the journal and their declared outputs, and outputs are read by downstream steps only; ideal hashes",
]

KINDS = ["file", "glob", "glob_items", "param", "lines", "line_items", "regex", "regex_items", "generic", "sqlite", "step"]
# not modelled: url (needs the network: everything here is offline)
SQL_QUERY = "SELECT v FROM t WHERE k < 10 ORDER BY k"


# =================================================================================================
# simulated workspace
# =================================================================================================
def norm(b):
    return bytes(c for c in b if c not in (10, 13))


def lines_of(b):
    """BufRead::lines: split at LF, no terminator, a trailing CR removed"""
    s = b.split(b"\n")
    if s and s[-1] == b"":
        s.pop()
    return [l[:-1] if l.endswith(b"\r") else l for l in s]


@functools.lru_cache(maxsize=None)
def sql_db(rows):
    """the bytes of a SQLite database with table t(k INTEGER PRIMARY KEY, v TEXT) holding rows (tuple of (k, v))"""
    d = tempfile.mkdtemp(prefix="xvc-verif-c12sql-")
    try:
        p = os.path.join(d, "x.sqlite")
        con = sqlite3.connect(p)
        con.execute("PRAGMA page_size = 512")          # keeps scenario files small
        con.execute("CREATE TABLE t (k INTEGER PRIMARY KEY, v TEXT)")
        con.executemany("INSERT INTO t VALUES (?, ?)", list(rows))
        con.commit()
        con.close()
        return open(p, "rb").read()
    finally:
        C.rm_rf(d)


@functools.lru_cache(maxsize=None)
def sql_query(data, query):
    """runs the query on the database whose bytes are data; the result as SqliteQueryDep::update_digest joins it:
    the columns of a row concatenated (text as it is, integers and reals printed), rows joined by LF"""
    d = tempfile.mkdtemp(prefix="xvc-verif-c12sql-")
    try:
        p = os.path.join(d, "x.sqlite")
        with open(p, "wb") as fh:
            fh.write(data)
        con = sqlite3.connect(p)
        try:
            rows = con.execute(query).fetchall()
        finally:
            con.close()
        return "\n".join("".join(str(c) for c in r) for r in rows)
    finally:
        C.rm_rf(d)


def sql_rows(data):
    return tuple(tuple(l.split("\x1f")) for l in sql_query(data, "SELECT k || char(31) || v FROM t ORDER BY k").split("\n") if l)


def meta(fs, p):
    mt, data = fs[p]
    return (len(data), mt)


def members(fs, pat):
    return sorted(p for p in fs if fnmatch.fnmatchcase(p, pat))


def param_value(data, key):
    for l in lines_of(data):
        m = re.match(rb"^%s:\s*(.*)$" % re.escape(key.encode()), l)
        if m:
            return m.group(1)
    return None


def dep_paths(dep, fs):
    k = dep[0]
    if k in ("file", "param", "lines", "line_items", "regex", "regex_items", "sqlite"):
        return [dep[1]]
    if k in ("glob", "glob_items"):
        return members(fs, dep[1])
    if k == "generic":
        return [dep[1]]
    return []


def fp_code(dep, fs):
    """(superficial, thorough) as the code compares them; None: the dependency cannot be inspected"""
    k = dep[0]
    if k in ("file", "param", "lines", "line_items", "regex", "regex_items", "generic", "sqlite"):
        if dep[1] not in fs:
            return None
        data = fs[dep[1]][1]
    if k == "file":
        return (meta(fs, dep[1]), norm(data))
    if k == "sqlite":
        return (meta(fs, dep[1]), sql_query(data, dep[2]))      # metadata of the database file; the result of the query
    if k == "glob":
        # superficial: names + metadata of the members (xvc_paths_digest, xvc_metadata_digest); thorough (content level):
        # names + contents.  Whether the code's thorough comparison also looks at the superficial part is the model's
        # switch v_glob_content (fixed_P73), derived from the executed table of GlobDep::diff_thorough
        ms = members(fs, dep[1])
        return (tuple((p, meta(fs, p)) for p in ms), tuple((p, norm(fs[p][1])) for p in ms))
    if k == "glob_items":
        ms = members(fs, dep[1])
        return (tuple((p, meta(fs, p)) for p in ms), tuple((p, norm(fs[p][1])) for p in ms))
    if k == "param":
        return (meta(fs, dep[1]), param_value(data, dep[2]))
    if k in ("lines", "line_items"):
        return (meta(fs, dep[1]), tuple(lines_of(data)[dep[2]:dep[3]]))
    if k in ("regex", "regex_items"):
        rx = re.compile(dep[2].encode())
        ms = [l for l in lines_of(data) if rx.search(l)]
        return (meta(fs, dep[1]), b"".join(ms) if k == "regex" else tuple(ms))
    if k == "generic":
        return (data, data)          # `cat <file>`: superficial = thorough = digest of stdout
    raise ValueError(k)


def sem(dep, fs):
    """what the property text says the dependency denotes"""
    k = dep[0]
    if k in ("file", "generic"):
        return fs[dep[1]][1] if dep[1] in fs else None
    if k in ("glob", "glob_items"):
        return tuple((p, fs[p][1]) for p in members(fs, dep[1]))
    if k == "sqlite":
        return sql_query(fs[dep[1]][1], dep[2]) if dep[1] in fs else None
    if k == "param":
        return param_value(fs[dep[1]][1], dep[2]) if dep[1] in fs else None
    if k in ("lines", "line_items"):
        return tuple(lines_of(fs[dep[1]][1])[dep[2]:dep[3]]) if dep[1] in fs else None
    if k in ("regex", "regex_items"):
        if dep[1] not in fs:
            return None
        rx = re.compile(dep[2].encode())
        return tuple(l for l in lines_of(fs[dep[1]][1]) if rx.search(l))
    raise ValueError(k)


def sem_nobreak(dep, fs):
    """the denotation with line breaks removed from file contents (class line-break-only-change)"""
    k = dep[0]
    if k in ("file", "generic"):
        return norm(fs[dep[1]][1]) if dep[1] in fs else None
    if k in ("glob", "glob_items"):
        return tuple((p, norm(fs[p][1])) for p in members(fs, dep[1]))
    return sem(dep, fs)


def dep_cli(dep):
    k = dep[0]
    if k == "file":
        return ["--file", dep[1]]
    if k == "glob":
        return ["--glob", dep[1]]
    if k == "glob_items":
        return ["--glob_items", dep[1]]
    if k == "param":
        return ["--param", "%s::%s" % (dep[1], dep[2])]
    if k == "lines":
        return ["--lines", "%s::%d-%d" % (dep[1], dep[2], dep[3])]
    if k == "line_items":
        return ["--line_items", "%s::%d-%d" % (dep[1], dep[2], dep[3])]
    if k == "regex":
        return ["--regex", "%s:/%s" % (dep[1], dep[2])]
    if k == "regex_items":
        return ["--regex_items", "%s:/%s" % (dep[1], dep[2])]
    if k == "generic":
        return ["--generic", "cat " + dep[1]]
    if k == "sqlite":
        return ["--sqlite-query", dep[1], dep[2]]
    if k == "step":
        return ["--step", dep[1]]
    raise ValueError(k)


def out_content(out, fs):
    return (out[2] + "\n").encode() if out[1] == "const" else fs[out[2]][1]


def command_of(st):
    parts = ["echo %s >> journal" % st["name"]]
    for o in st.get("outs", []):
        parts.append(("echo %s > %s" % (o[2], o[0])) if o[1] == "const" else ("cat %s > %s" % (o[2], o[0])))
    parts.append("exit $(cat ctl/code_%s)" % st["name"])
    return "; ".join(parts)


class Clock:
    def __init__(self):
        self.t = 0

    def tick(self):
        self.t += 1
        return T0 + self.t * SEC


def apply_edit(fs, e, clock, codes):
    """applies one edit to the simulated file map; returns the list of paths to (re)write / delete on disk"""
    k = e[0]
    if k in ("append", "touch", "crlf", "setline", "param", "sqlset") and e[1] not in fs:
        return []                   # only while shrinking: the edit that created / renamed the file was dropped
    if k == "append":
        fs[e[1]] = [clock.tick(), fs[e[1]][1] + e[2].encode()]
        return [e[1]]
    if k == "touch":
        fs[e[1]] = [clock.tick(), fs[e[1]][1]]
        return [e[1]]
    if k == "add":
        fs[e[1]] = [clock.tick(), e[2].encode()]
        return [e[1]]
    if k == "remove":
        fs.pop(e[1], None)
        return [e[1]]
    if k == "rename":               # content and modification time go with the file
        if e[1] in fs and e[2] not in fs:
            fs[e[2]] = fs.pop(e[1])
        return [e[1], e[2]]
    if k == "crlf":
        d = fs[e[1]][1]
        d = d.replace(b"\r\n", b"\n") if b"\r\n" in d else d.replace(b"\n", b"\r\n")
        fs[e[1]] = [clock.tick(), d]
        return [e[1]]
    if k == "setline":
        d = fs[e[1]][1]
        crlf = b"\r\n" in d
        ls = lines_of(d)
        while len(ls) <= e[2]:
            ls.append(b"pad%d" % len(ls))
        ls[e[2]] = e[3].encode()
        nl = b"\r\n" if crlf else b"\n"
        fs[e[1]] = [clock.tick(), nl.join(ls) + nl]
        return [e[1]]
    if k == "param":
        ls = lines_of(fs[e[1]][1])
        ls = [(("%s: %s" % (e[2], e[3])).encode() if l.startswith(e[2].encode() + b":") else l) for l in ls]
        fs[e[1]] = [clock.tick(), b"\n".join(ls) + b"\n"]
        return [e[1]]
    if k == "sqlset":               # INSERT OR REPLACE of one row; the database file is rewritten
        rows = dict((int(a), b) for a, b in sql_rows(fs[e[1]][1]))
        rows[int(e[2])] = e[3]
        fs[e[1]] = [clock.tick(), sql_db(tuple(sorted(rows.items())))]
        return [e[1]]
    if k == "fail":
        codes[e[1]] = int(e[2])
        return ["ctl/code_" + e[1]]
    if k == "nothing":
        return []
    raise ValueError(k)


# =================================================================================================
# scenario structure helpers
# =================================================================================================
def step_index(sc):
    return {st["name"]: i for i, st in enumerate(sc["steps"])}


def producers(sc):
    """output path -> index of the producing step"""
    return {o[0]: i for i, st in enumerate(sc["steps"]) for o in st.get("outs", [])}


def edges_of(sc):
    """per step: (explicit dependency steps, implicit ones through outputs), as indices"""
    idx, prod = step_index(sc), producers(sc)
    res = []
    for i, st in enumerate(sc["steps"]):
        sd = [idx[d[1]] for d in st["deps"] if d[0] == "step"]
        im = sorted({prod[d[1]] for d in st["deps"] if d[0] in ("file", "param", "lines", "line_items", "regex", "regex_items", "sqlite")
                     and d[1] in prod and prod[d[1]] != i})
        res.append((sd, im))
    return res


def own_deps(st):
    return [d for d in st["deps"] if d[0] != "step"]


def when_letter(w):
    return {"by_dependencies": "b", "always": "a", "never": "n"}[w]


def is_forced(st):
    return st["when"] == "always" or (st["when"] == "by_dependencies" and not st["deps"])


# set by run() from the source (gen/difftables.py:graph_build_reads_metadata): does dependencies_to_path still ask the
# path-metadata provider about declared outputs while the graph is built?  False since /repo b24ba95e: the class
# stale-output-metadata-cache is then empty and suppresses nothing.
STALE_CLASS_ACTIVE = True
# set by run() from the executed table of GlobDep::diff_thorough: the code has the repair of glob-member-touch (P73)
GLOB_FIXED = False


def stale_suspects(sc):
    """class stale-output-metadata-cache: in a pipeline with a --glob dependency, the steps that read an output of
    another step (and the steps downstream of them).  glob_includes() caches the metadata of every output path
    through XvcPathMetadataProvider::path_present() while the graph is built; whether the reader later sees the
    cached or the current metadata depends on the notify watcher thread.  Empty when the graph is built without
    the provider (STALE_CLASS_ACTIVE False)."""
    if not STALE_CLASS_ACTIVE:
        return set()
    if not any(d[0] == "glob" for st in sc["steps"] for d in st["deps"]):
        return set()
    prod = producers(sc)
    E = [sorted(set(a + b)) for a, b in edges_of(sc)]
    sus = set()
    for i, st in enumerate(sc["steps"]):
        if any(d[0] != "step" and d[0] != "generic" and d[1] in prod and prod[d[1]] != i for d in st["deps"]):
            sus.add(i)
    for i in range(len(sc["steps"])):
        if any(j in sus for j in E[i]):
            sus.add(i)
    return sus


class Ids:
    def __init__(self):
        self.m = {}

    def __call__(self, obj):
        return self.m.setdefault(repr(obj), len(self.m) + 1)


def model_line(sc, fs, codes, recs, rnd, ids, variant="code", mode="all"):
    """one line for invalmodel: the configuration of this round, the carried records, the world before the run"""
    depno, n = {}, 0
    for i, st in enumerate(sc["steps"]):
        for j, d in enumerate(own_deps(st)):
            depno[(i, j)] = i * 16 + j + 1
    E = edges_of(sc)
    prod = producers(sc)
    world, steps = [], []
    for i, st in enumerate(sc["steps"]):
        for j, d in enumerate(own_deps(st)):
            f = fp_code(d, fs)
            if f is not None:
                world.append("%d=%d/%d" % (depno[(i, j)], ids(("s", d[0], f[0])), ids(("t", d[0], f[1]))))
    for i, st in enumerate(sc["steps"]):
        effs = []
        if st.get("outs"):
            fs2 = dict(fs)
            for o in st["outs"]:
                fs2[o[0]] = [("x", rnd, i), out_content(o, fs)]
            for i2, st2 in enumerate(sc["steps"]):
                for j2, d2 in enumerate(own_deps(st2)):
                    if any(p in prod and prod[p] == i for p in dep_paths(d2, fs2)):
                        f = fp_code(d2, fs2)
                        effs.append("%d=%d/%d" % (depno[(i2, j2)], ids(("s", d2[0], f[0])), ids(("t", d2[0], f[1]))))
        steps.append("%s:%s:%s:%s:%d:%s" % (
            when_letter(st["when"]),
            ",".join("%d%s" % (depno[(i, j)], "g" if d[0] == "glob" else "") for j, d in enumerate(own_deps(st))),
            ",".join(map(str, E[i][0])), ",".join(map(str, E[i][1])), 0 if codes.get(st["name"]) else 1, ",".join(effs)))
    return "%s %s | %s | %s | %s | " % (mode, variant, ";".join(steps), recs, ",".join(world))


OUT_RE = re.compile(r"exec=\[([^\]]*)\] states=\[([^\]]*)\] recs=\[([^\]]*)\] complete=([01])")


def parse_outcomes(line):
    """-> (list of (exec tuple, states tuple, recs string, complete), flags dict)"""
    body, _, tail = line.partition(" ;;")
    outs = []
    for part in body.split(" || "):
        m = OUT_RE.search(part)
        if not m:
            return None, {}
        ex = tuple(int(x) for x in m.group(1).split(",") if x)
        recs = ",".join(x for x in m.group(3).split(",") if x and not x.endswith("=-"))
        outs.append((ex, tuple(m.group(2).split(",")), recs, m.group(4) == "1"))
    flags = dict(kv.split("=", 1) for kv in tail.split() if "=" in kv)
    return outs, flags


# =================================================================================================
# the oracle (property text; independent of the model)
# =================================================================================================
def oracle_round(sc, r, executed, dup, before, after, last, prev_ok, codes):
    """judges one run.  executed: set of step indices from the journal; before/after: file maps around the run;
    last: per (step, depindex) what the last fully successful run saw: {"sem":…, "nb":…, "sup":…, "tho":…}.
    Returns a list of (what, klass)."""
    errs = []
    steps = sc["steps"]
    E = [sorted(set(a + b)) for a, b in edges_of(sc)]
    n = len(steps)
    edits = [e for e in sc["rounds"][r]["edits"] if e[0] != "nothing"]
    if dup:
        errs.append(("step command executed more than once in one run: %s" % dup, None))
    info = {}
    for i, st in enumerate(steps):
        ds = []
        for j, d in enumerate(own_deps(st)):
            l = last.get((i, j))
            f = fp_code(d, after)
            cur = {"sem": sem(d, after), "nb": sem_nobreak(d, after), "sup": f[0] if f else None, "tho": f[1] if f else None}
            ds.append({"kind": d[0],
                       "sem_changed": l is None or l["sem"] != cur["sem"],
                       "nb_changed": l is None or l["nb"] != cur["nb"],
                       "sup_changed": l is None or l["sup"] != cur["sup"],
                       "tho_changed": l is None or l["tho"] != cur["tho"]})
        info[i] = ds
    never = [st["when"] == "never" for st in steps]
    forced = [is_forced(st) for st in steps]
    direct = [any(x["sem_changed"] for x in info[i]) and not never[i] for i in range(n)]
    direct_strict = [any(x["nb_changed"] for x in info[i]) and not never[i] for i in range(n)]
    # a dependency that cannot be inspected (missing file) breaks the step: it counts as not succeeding
    missing = [not never[i] and any(fp_code(d, after) is None for d in own_deps(steps[i])) for i in range(n)]
    failed = [(i in executed and bool(codes.get(steps[i]["name"]))) or missing[i] for i in range(n)]
    need, need_strict, blocked = [False] * n, [False] * n, [False] * n
    for i in range(n):                       # steps are numbered topologically
        if never[i]:
            continue
        need[i] = direct[i] or any(need[j] for j in E[i])
        need_strict[i] = direct_strict[i] or any(need_strict[j] for j in E[i])
        blocked[i] = steps[i]["when"] != "always" and any(failed[j] or blocked[j] for j in E[i])
    unchanged_ws = prev_ok and not edits
    for i in range(n):
        name = steps[i]["name"]
        if never[i]:
            if i in executed:
                errs.append(("step %s is marked never and was executed" % name, None))
            continue
        touched = any(x["sup_changed"] and not x["tho_changed"] for x in info[i])
        if i in executed:
            if forced[i]:
                continue
            upstream_ran = any(j in executed for j in E[i])
            if unchanged_ws and not forced[i]:
                k = None
                if upstream_ran:
                    k = "downstream-of-always-step"
                errs.append(("run %d on an unchanged workspace after a successful run executed step %s (not always, has dependencies)" % (r, name), k))
                continue
            if direct[i] or upstream_ran:
                continue
            k = None
            # the class follows the switch: with the repair in the code it is empty and suppresses nothing
            if not GLOB_FIXED and any(x["kind"] == "glob" and x["sup_changed"] and not x["tho_changed"] for x in info[i]):
                k = "glob-member-touch"
            elif touched and not any(x["tho_changed"] for x in info[i]) and \
                    any(any(x["tho_changed"] for x in info[o]) for o in range(n) if o != i and not never[o]):
                k = "touched-step-next-to-changed-step"
            errs.append(("run %d executed step %s although none of its dependencies changed and no step it depends on ran" % (r, name), k))
        elif missing[i]:
            continue
        else:
            if forced[i] and not blocked[i]:
                errs.append(("run %d did not execute step %s (always / no dependencies)" % (r, name), None))
            elif need[i] and not blocked[i]:
                k = None
                if not need_strict[i]:
                    k = "line-break-only-change"
                elif not any(x["tho_changed"] for x in info[i]) and touched and any(j in executed for j in E[i]):
                    k = "touched-step-downstream-of-executed-step"
                errs.append(("run %d did not execute step %s although a dependency of it (or of a step it depends on) changed%s" % (
                    r, name, "" if prev_ok else " (the change was seen only by a failed run)"), k))
    return errs


# =================================================================================================
# running one scenario on the real binary, the model alongside
# =================================================================================================
class ScenarioResult:
    def __init__(self):
        self.rounds = []          # per round: dict(executed, allowed, failed, ...)
        self.failures = []        # (kind, what, klass, round)
        self.setup_error = None
        self.skipped = None       # "timeout": the machine was too slow to tell anything (termination is C11's subject)
        self.model_orders = 0


def write_disk(repo, fs, path, codes):
    if path.startswith("ctl/code_"):
        repo.write(path, "%d\n" % codes.get(path[len("ctl/code_"):], 0), T0)
    elif path in fs:
        mt, data = fs[path]
        repo.write(path, data, mt if isinstance(mt, int) else None)
    else:
        try:
            os.unlink(repo.path(path))
        except OSError:
            pass


def run_scenario(xvc, model, sc, variant="code", jitter_shift=0, keep_going=False):
    """executes the scenario; returns a ScenarioResult"""
    res = ScenarioResult()
    import zlib
    sc_seed = zlib.crc32(json.dumps(sc, sort_keys=True).encode()) + jitter_shift
    ids = Ids()
    fs = {p: [T0, c.encode("latin-1")] for p, c in sc["files"].items()}
    codes = {}
    clock = Clock()
    steps = sc["steps"]
    names = [st["name"] for st in steps]
    with XvcRepo(xvc, prefix="c12", git=False) as repo:
        for p in fs:
            write_disk(repo, fs, p, codes)
        for st in steps:
            write_disk(repo, fs, "ctl/code_" + st["name"], codes)
            a = ["pipeline", "step", "new", "-s", st["name"], "-c", command_of(st)]
            if st["when"] != "by_dependencies":
                a += ["--when", st["when"]]
            x = repo.xvc(*a, timeout=300)
            if x.timed_out:
                res.skipped = "timeout"
                return res
            if x.failed:
                res.setup_error = "step new: " + x.err[-300:]
                return res
        for st in steps:
            if st["deps"]:
                a = ["pipeline", "step", "dependency", "-s", st["name"]]
                for d in st["deps"]:
                    a += dep_cli(d)
                x = repo.xvc(*a, timeout=300)
                if x.timed_out:
                    res.skipped = "timeout"
                    return res
                if x.failed:
                    res.setup_error = "step dependency: " + x.err[-300:]
                    return res
            if st.get("outs"):
                a = ["pipeline", "step", "output", "-s", st["name"]]
                for o in st["outs"]:
                    # file, metric or image: the kind of a declared output must not matter for the implicit edges
                    a += [("--output-file", "--output-metric", "--output-image")[zlib.crc32(o[0].encode()) % 3], o[0]]
                x = repo.xvc(*a, timeout=300)
                if x.timed_out:
                    res.skipped = "timeout"
                    return res
                if x.failed:
                    res.setup_error = "step output: " + x.err[-300:]
                    return res
        cands = {""}            # record states the model may be in (strings in invalmodel's format)
        last, prev_ok = {}, False
        for r, rd in enumerate(sc["rounds"]):
            for e in rd["edits"]:
                for p in apply_edit(fs, e, clock, codes):
                    write_disk(repo, fs, p, codes)
            before = {p: list(v) for p, v in fs.items()}
            lines = [model_line(sc, fs, codes, rc, r, ids, variant) for rc in sorted(cands)]
            jp = repo.path("journal")
            if os.path.exists(jp):
                os.unlink(jp)
            env = {"XVC_VERIF_JITTER": str(rd.get("jitter", 0) + jitter_shift)} if rd.get("jitter") is not None else None
            x = repo.xvc("pipeline", "run", env=env, timeout=300)
            if x.timed_out:
                # one-sided: a run that is not finished after 300 s says nothing about C12 (a slow machine, or a
                # hang, which is C11's subject); the scenario is abandoned and counted
                res.skipped = "timeout"
                return res
            jl = open(jp).read().split() if os.path.exists(jp) else []
            dup = sorted({n for n in jl if jl.count(n) > 1})
            executed = {names.index(n) for n in jl if n in names}
            # the outputs of the executed steps, in the simulated file map; compared with the disk
            for i in sorted(executed):
                for o in steps[i].get("outs", []):
                    fs[o[0]] = [("x", r, i), out_content(o, before)]
                    if repo.read(o[0]) != fs[o[0]][1]:
                        res.failures.append(("harness", "output %s of step %s has unexpected content" % (o[0], names[i]), None, r))
            run_failed = x.failed or x.timed_out
            any_code = any(codes.get(names[i]) for i in executed)
            info = {"round": r, "edits": rd["edits"], "executed": sorted(names[i] for i in executed), "xvc_failed": bool(run_failed)}
            if x.panicked:
                res.failures.append(("oracle", "xvc pipeline run panicked in run %d: %s" % (r, x.err[-200:]), None, r))
            # ---- oracle
            sus = stale_suspects(sc)
            for what, klass in oracle_round(sc, r, executed, dup, before, fs, last, prev_ok, codes):
                m = re.search(r"step (s\d+)", what)
                if klass is None and m and m.group(1) in names and names.index(m.group(1)) in sus:
                    klass = "stale-output-metadata-cache"
                res.failures.append(("oracle", what, klass, r))
            # ---- model
            # model self-consistency: explicit random schedules must end in one of the outcomes of `all`
            import random as _random
            orng = _random.Random((sc_seed * 1000003 + r) & 0xFFFFFFFF)
            xl = []
            for _ in range(2):
                o = [i for i in range(len(steps)) for _ in (0, 1)]
                orng.shuffle(o)
                xl.append("run" + lines[0][3:] + ",".join(map(str, o + [i for i in range(len(steps)) for _ in (0, 1)])))
            rc_m, outl = C.run_lines(model, lines + xl)
            extra, outl = outl[len(lines):], outl[:len(lines)]
            first, _fl = parse_outcomes(outl[0]) if outl else (None, {})
            for xo in extra:
                m = OUT_RE.search(xo)
                if not m or first is None:
                    res.failures.append(("correspondence", "invalmodel (explicit schedule): " + xo[:200], None, r))
                    continue
                key = (tuple(sorted(int(x) for x in m.group(1).split(",") if x)), tuple(m.group(2).split(",")),
                       ",".join(x for x in m.group(3).split(",") if x and not x.endswith("=-")), m.group(4) == "1")
                res.model_orders += 1
                if key[3] and key not in set(first):
                    res.failures.append(("correspondence", "model: the outcome of an explicit schedule is not among all_outcomes: %s" % xo[:200], None, r))
            allowed, newc = set(), set()
            flags = {}
            for ol in outl:
                outs, fl = parse_outcomes(ol)
                flags.update(fl)
                if outs is None:
                    res.failures.append(("correspondence", "invalmodel: " + ol[:200], None, r))
                    continue
                for ex, states, recs, complete in outs:
                    allowed.add(ex)
                    if ex == tuple(sorted(executed)) and complete:
                        newc.add((recs, states))
            info["allowed"] = sorted(list(a) for a in allowed)
            info["model_flags"] = flags
            info["candidates"] = len(cands)
            if not newc:
                k = None
                if any(set(a) ^ executed <= sus for a in allowed):
                    k = "stale-output-metadata-cache"
                res.failures.append(("correspondence", "run %d executed %s; the model allows only %s" % (
                    r, sorted(names[i] for i in executed), [[names[i] for i in a] for a in sorted(allowed)]), k, r))
                res.rounds.append(info)
                if not keep_going:
                    break
                newc = {(rc, ()) for rc in cands}
            else:
                # the run failed (some step broken) in the model iff xvc reported an error
                broken = {any(s.startswith("B") for s in st) for _, st in newc}
                if broken == {True} and not run_failed or broken == {False} and any_code and not run_failed:
                    res.failures.append(("correspondence", "run %d: the model says a step is broken, xvc reported no error" % r, None, r))
                res.rounds.append(info)
            cands = {rc for rc, _ in newc}
            # ---- what the last fully successful run saw (oracle bookkeeping, from the property text)
            ok_run = not any_code and not run_failed
            if ok_run:
                for i, st in enumerate(steps):
                    if st["when"] == "never":
                        continue
                    for j, d in enumerate(own_deps(st)):
                        f = fp_code(d, fs)
                        l = last.get((i, j))
                        cur = {"sem": sem(d, fs), "nb": sem_nobreak(d, fs), "sup": f[0] if f else None, "tho": f[1] if f else None}
                        if l is not None and l["tho"] == cur["tho"] and (GLOB_FIXED or d[0] != "glob"):
                            # the content-level value is what it was: the run keeps its record, and with it the
                            # metadata of the last real change ("touched since" stays visible to the class predicates);
                            # a --glob dependency of the code before the repair of P73 records the new metadata
                            cur["sup"] = l["sup"]
                        last[(i, j)] = cur
            prev_ok = ok_run
    return res


# =================================================================================================
# generator
# =================================================================================================
BASE_FILES = {
    "f0.txt": "alpha\nbeta\ngamma\ndelta\n",
    "f1.txt": "k1 one\nk2 two\nz3 three\nz4 four\nz5 five\n",
    "f2.txt": "red\ngreen\n",
    "p.yaml": "a: 1\nb: 2\n",
    "g/a.dat": "ga\n",
    "g/b.dat": "gb\n",
    "h/a.csv": "ha\n",
    "d.sqlite": sql_db(((1, "one"), (2, "two"), (20, "twenty"))).decode("latin-1"),
}


def random_dep(rng):
    k = rng.choice(["file", "file", "glob", "glob_items", "param", "lines", "line_items", "regex", "regex_items", "generic", "sqlite"])
    if k == "sqlite":
        return ["sqlite", "d.sqlite", SQL_QUERY]
    if k == "file":
        return ["file", rng.choice(["f0.txt", "f1.txt", "f2.txt"])]
    if k == "glob":
        return ["glob", rng.choice(["g/*.dat", "h/*.csv"])]
    if k == "glob_items":
        return ["glob_items", rng.choice(["g/*.dat", "h/*.csv"])]
    if k == "param":
        return ["param", "p.yaml", rng.choice(["a", "b"])]
    if k in ("lines", "line_items"):
        # ranges that do not start at line 0 too: lines after the range (and before begin + end) must not matter
        b_, e_ = rng.choice([(0, 2), (0, 2), (1, 3), (2, 4)])
        return [k, rng.choice(["f0.txt", "f1.txt"]), b_, e_]
    if k in ("regex", "regex_items"):
        return [k, "f1.txt", "^k"]
    return ["generic", "f2.txt"]


def random_scenario(rng, nmax=4, rounds=(3, 6)):
    n = rng.randint(2, nmax)
    steps = []
    for i in range(n):
        w = rng.random()
        when = "by_dependencies" if w < 0.78 else "always" if w < 0.90 else "never"
        deps = []
        if rng.random() < 0.93:
            for _ in range(rng.choice([1, 1, 2])):
                d = random_dep(rng)
                if d not in deps and not (d[0] == "sqlite" and any(x[0] == "sqlite" for x in deps)):   # --sqlite-query: once per step
                    deps.append(d)
        # read an output of an earlier step
        prods = [s for s in steps if s.get("outs") and s["when"] != "never"]
        if prods and rng.random() < 0.7:
            o = rng.choice(prods)["outs"][0][0]
            deps.append(rng.choice([["file", o], ["file", o], ["lines", o, 0, 1], ["regex_items", o, "."]]))
        if i > 0 and rng.random() < 0.35:
            deps.append(["step", rng.choice(steps)["name"]])
        st = {"name": "s%d" % i, "when": when, "deps": deps}
        if when != "never" and i < n - 1 and rng.random() < 0.35:
            st["outs"] = [["o%d.txt" % i] + rng.choice([["const", "K%d" % i], ["copy", rng.choice(["f0.txt", "f2.txt"])]])]
        steps.append(st)
    sc = {"files": dict(BASE_FILES), "steps": steps, "rounds": [{"edits": [], "jitter": rng.randrange(1000)}]}
    fs = {p: [T0, c.encode("latin-1")] for p, c in sc["files"].items()}
    codes, clock = {}, Clock()
    failing = None
    for r in range(rng.randint(*rounds) - 1):
        edits = []
        if failing is not None and rng.random() < 0.7:
            edits.append(["fail", failing, 0]); failing = None
        z = rng.random()
        ne = 0 if z < 0.22 else 1 if z < 0.55 else 2 if z < 0.85 else 3
        for _ in range(ne):
            e = random_edit(rng, sc, fs, failing)
            if e is None:
                continue
            if e[0] == "fail":
                failing = e[1] if e[2] else None
            apply_edit(fs, e, clock, codes)
            edits.append(e)
        sc["rounds"].append({"edits": edits or [["nothing"]], "jitter": rng.randrange(1000)})
    return sc


def random_edit(rng, sc, fs, failing):
    used = [d for st in sc["steps"] for d in own_deps(st)]
    base = sorted({d[1] for d in used if d[0] in ("file", "lines", "line_items", "regex", "regex_items", "generic") and d[1] in BASE_FILES})
    globs = sorted({d[1] for d in used if d[0] in ("glob", "glob_items")})
    has_param = any(d[0] == "param" for d in used)
    has_sql = any(d[0] == "sqlite" for d in used)
    kinds = []
    if base:
        kinds += ["append", "append", "touch", "touch", "crlf", "setline", "setline"]
    if globs:
        kinds += ["add", "remove", "gtouch", "gtouch", "gappend", "grename"]
    if has_param:
        kinds += ["param", "param", "ptouch"]
    if has_sql:
        kinds += ["sqlsel", "sqlsel", "sqlother", "sqltouch"]
    if failing is None and any(st["when"] != "never" for st in sc["steps"]):
        kinds += ["fail"]
    if not kinds:
        return None
    k = rng.choice(kinds)
    if k == "append":
        return ["append", rng.choice(base), "w%d\n" % rng.randrange(100)]
    if k == "touch":
        return ["touch", rng.choice(base)]
    if k == "crlf":
        return ["crlf", rng.choice(base)]
    if k == "setline":
        return ["setline", rng.choice(base), rng.choice([0, 1, 2, 3, 4]), "k9 edited%d" % rng.randrange(100)]
    if k in ("add", "remove", "gtouch", "gappend", "grename"):
        pat = rng.choice(globs)
        ms = members(fs, pat)
        if k == "add" or not ms:
            return ["add", pat.replace("*", "n%d" % rng.randrange(5)), "new%d\n" % rng.randrange(100)]
        if k == "remove":
            return ["remove", rng.choice(ms)] if len(ms) > 1 else ["touch", ms[0]]
        if k == "gtouch":
            return ["touch", rng.choice(ms)]
        if k == "grename":
            # a new name that keeps the member's place in the sorted list (names matter, not only contents in order)
            old = rng.choice(ms)
            stem, ext = os.path.splitext(old)
            new = (stem[:-2] if stem.endswith("_r") else stem + "_r") + ext
            return ["rename", old, new] if new not in fs else ["touch", old]
        return ["append", rng.choice(ms), "more%d\n" % rng.randrange(100)]
    if k == "param":
        return ["param", "p.yaml", rng.choice(["a", "b"]), str(rng.randrange(3, 100))]
    if k == "ptouch":
        return ["touch", "p.yaml"]
    if k == "sqlsel":               # a row the query selects: the result changes
        return ["sqlset", "d.sqlite", rng.choice([1, 2, 3]), "v%d" % rng.randrange(100)]
    if k == "sqlother":             # a row the query does not select: the file changes, the result does not
        return ["sqlset", "d.sqlite", rng.choice([20, 21]), "w%d" % rng.randrange(100)]
    if k == "sqltouch":
        return ["touch", "d.sqlite"]
    if k == "fail":
        cands = [st["name"] for st in sc["steps"] if st["when"] != "never"]
        return ["fail", rng.choice(cands), 1]
    return None


# =================================================================================================
# shrinking
# =================================================================================================
def shrink(xvc, model, sc, target, budget=24):
    """drops rounds and edits while a failure with the same (kind, klass) is still observed.
    target: (kind, klass).  Schedules vary: every candidate is tried with three jitter shifts."""
    def fails(s):
        for shift in (0, 1, 2):
            rr = run_scenario(xvc, model, s, jitter_shift=shift)
            fl = [f for f in rr.failures if (f[0], f[2]) == target]
            if fl:
                return fl[0]
        return None
    cur = copy.deepcopy(sc)
    spent = 0
    # cut after the failing round
    f0 = fails(cur); spent += 1
    if f0 is None:
        return sc, None
    cur["rounds"] = cur["rounds"][:f0[3] + 1]
    changed = True
    while changed and spent < budget:
        changed = False
        for i in range(len(cur["rounds"]) - 2, 0, -1):          # drop a middle round (keep its edits: merge forward)
            if spent >= budget:
                break
            cand = copy.deepcopy(cur)
            merged = [e for e in cand["rounds"][i]["edits"] if e[0] != "nothing"] + cand["rounds"][i + 1]["edits"]
            cand["rounds"][i + 1]["edits"] = merged
            del cand["rounds"][i]
            f = fails(cand); spent += 1
            if f is not None and f[3] == len(cand["rounds"]) - 1:
                cur, f0, changed = cand, f, True
        for i in range(len(cur["rounds"])):
            j = 0
            while j < len(cur["rounds"][i]["edits"]) and spent < budget:
                cand = copy.deepcopy(cur)
                del cand["rounds"][i]["edits"][j]
                if not cand["rounds"][i]["edits"]:
                    cand["rounds"][i]["edits"] = [["nothing"]]
                if cand["rounds"][i]["edits"] == cur["rounds"][i]["edits"]:
                    j += 1
                    continue
                f = fails(cand); spent += 1
                if f is not None:
                    cur, f0, changed = cand, f, True
                else:
                    j += 1
        # drop steps nothing refers to
        for i in range(len(cur["steps"]) - 1, -1, -1):
            if spent >= budget or len(cur["steps"]) <= 1:
                break
            nm = cur["steps"][i]["name"]
            outs = [o[0] for o in cur["steps"][i].get("outs", [])]
            ref = any(d[0] == "step" and d[1] == nm or d[0] != "step" and d[1] in outs for st in cur["steps"] for d in st["deps"])
            if ref or any(e[0] == "fail" and e[1] == nm for rd in cur["rounds"] for e in rd["edits"]):
                continue
            cand = copy.deepcopy(cur)
            del cand["steps"][i]
            f = fails(cand); spent += 1
            if f is not None:
                cur, f0, changed = cand, f, True
    return cur, f0


# =================================================================================================
# the check
# =================================================================================================
def regenerate_tables(chk):
    """Gen/DiffTables.v from /repo as it is now (tabledrv executes the real functions)"""
    import importlib.util
    tabledrv = C.ensure_harness(["tabledrv"])["tabledrv"]
    rc, out = C.sh([tabledrv], timeout=120)
    spec = importlib.util.spec_from_file_location("difftables", os.path.join(C.ROOT, "gen", "difftables.py"))
    dt = importlib.util.module_from_spec(spec)
    spec.loader.exec_module(dt)
    text, problems = dt.generate(out if rc == 0 else "", C.REPO)
    gproblems = []
    _gsup, gtho = dt.parse_glob_tables(out if rc == 0 else "", gproblems)
    # fixed_P73, as Gen/DiffTables.v computes it: members touched, names and contents as recorded -> no change
    glob_fixed = (not gproblems) and gtho[("false", "false", "same")] in ("Identical", "Skipped")
    reads_md, why = dt.graph_build_reads_metadata(C.REPO)
    path = os.path.join(C.COQ, "theories", "Gen", "DiffTables.v")
    if not os.path.exists(path) or open(path).read() != text:
        with open(path, "w") as fh:
            fh.write(text)
    chk.cov["generated"] = {"file": "coq/theories/Gen/DiffTables.v", "problems": problems,
                            "code_thorough_own_only": "code_thorough_own_only : bool := true" in text,
                            "code_tnc_consults_dep_steps": "code_tnc_consults_dep_steps : bool := true" in text,
                            "code_glob_thorough_content_only": glob_fixed,
                            "graph_build_reads_path_metadata": reads_md, "graph_build_reads_path_metadata_why": why}
    if rc != 0 or problems:
        chk.fail("proof", "table extraction failed: tabledrv rc=%s, %s" % (rc, "; ".join(problems)[:400]),
                 {"theorem_or_correspondence": "Gen/DiffTables.v (gen/difftables.py)"}, name="gen", has_input=False)
    return chk.cov["generated"]


def load_corpus():
    d = os.path.join(C.ROOT, "corpus", "C12")
    out = []
    for f in sorted(os.listdir(d)) if os.path.isdir(d) else []:
        if f.endswith(".json"):
            out.append((f, json.load(open(os.path.join(d, f)))))
    return out


def nontrivial_round(info):
    return info["round"] > 0


def run(chk, replay=None):
    tier, rng = chk.tier, chk.rng
    chk.cov["trusted_base"] = TRUSTED
    chk.assumptions += ["edits_visible: every edit of the runner changes size or mtime (mtimes set with os.utime)",
                        "step commands write only the journal and their declared outputs; outputs are read by downstream steps only",
                        "tho_faithful per kind is what vlib/c12.py:fp_code computes (validated by the correspondence, not proved)"]
    global GLOB_FIXED, STALE_CLASS_ACTIVE
    gen = regenerate_tables(chk)
    GLOB_FIXED = bool(gen["code_glob_thorough_content_only"])
    # an unparseable dependencies_to_path (None) keeps the class active: nothing is claimed about it
    STALE_CLASS_ACTIVE = gen["graph_build_reads_path_metadata"] is not False
    chk.proof()
    try:
        model = C.ensure_model("Inval", ["Gen", "Inval"])
    except RuntimeError as e:
        # the regenerated tables no longer compile (the proof failure is already reported): keep searching for a
        # failing input with the model extracted from the last tables that did
        model = os.path.join(C.BIN, "invalmodel")
        chk.cov["model_stale"] = str(e)[-300:]
        if not os.path.exists(model):
            raise
    xvc = C.ensure_xvc()
    code_fixed = gen["code_thorough_own_only"] and gen["code_tnc_consults_dep_steps"]
    # the switch of the extracted model (v_code, from the compiled tables) must be the one read off the executed table
    rc_p, outp = C.run_lines(model, ["run code | b:1g:::1: | 1=10/100 | 1=11/100 | "])
    mflag = re.search(r"globfixed=([01])", outp[0]) if outp else None
    chk.cov["model_glob_fixed"] = mflag.group(1) if mflag else None
    if mflag is None or (mflag.group(1) == "1") != GLOB_FIXED:
        chk.fail("correspondence", "switch fixed_P73 inconclusive: executed table of GlobDep::diff_thorough says %s, extracted model says %r" % (
            GLOB_FIXED, outp[:1]), {"theorem_or_correspondence": "Gen/DiffTables.v code_glob_thorough_content_only vs invalmodel globfixed"},
                 name="switch", has_input=False)

    scenarios = []          # (name, scenario, repeats)
    if replay and isinstance(replay.get("input") or replay.get("scenario"), dict):
        sc = replay.get("input") or replay.get("scenario")
        scenarios.append(("replay", sc, int(replay.get("repeats", 6))))
    elif replay:
        # a broken obligation / translator: nothing to execute but the proof part and the regression corpus
        for f, r in load_corpus():
            scenarios.append((f, r["input"], int(r.get("repeats", 4))))
    else:
        for f, r in load_corpus():
            scenarios.append((f, r["input"], int(r.get("repeats", 4))))
        nrand = 200 if tier == "quick" else 2000
        for k in range(nrand):
            nmax = 4 if (tier == "quick" or k % 4) else 5
            scenarios.append(("rand%d" % k, random_scenario(rng, nmax=nmax), 1))
    jobs = []
    for name, sc, rep in scenarios:
        for s in range(rep):
            jobs.append((name, sc, s))

    def work(job):
        name, sc, shift = job
        try:
            return job, run_scenario(xvc, model, sc, jitter_shift=shift * 7919, keep_going=False)
        except Exception as e:          # a crashed scenario must not hide the others
            rr = ScenarioResult()
            rr.setup_error = "exception %r" % (e,)
            return job, rr
    t0 = time.time()
    with ThreadPoolExecutor(max(4, min(12, C.NPROC - 4))) as ex:
        results = list(ex.map(work, jobs))
    chk.cov["scenario_wall_s"] = round(time.time() - t0, 1)

    dist = {"scenarios": len(jobs), "runs": 0, "steps": {}, "dep_kinds": {}, "edit_kinds": {}, "when": {}, "executed_set_sizes": {},
            "runs_with_several_allowed_sets": 0, "failed_runs": 0}
    pending = []            # (job, failure)
    for (name, sc, shift), rr in results:
        if rr.skipped:
            dist["abandoned_" + rr.skipped] = dist.get("abandoned_" + rr.skipped, 0) + 1
        if rr.setup_error:
            chk.fail("correspondence", "scenario %s could not be set up: %s" % (name, rr.setup_error),
                     {"input": sc, "theorem_or_correspondence": "scenario setup (vlib/c12.py)"}, name="setup", has_input=False)
            continue
        dist["steps"][len(sc["steps"])] = dist["steps"].get(len(sc["steps"]), 0) + 1
        for st in sc["steps"]:
            dist["when"][st["when"]] = dist["when"].get(st["when"], 0) + 1
            for d in st["deps"]:
                dist["dep_kinds"][d[0]] = dist["dep_kinds"].get(d[0], 0) + 1
        for info in rr.rounds:
            dist["runs"] += 1
            for e in info["edits"]:
                dist["edit_kinds"][e[0]] = dist["edit_kinds"].get(e[0], 0) + 1
            k = len(info["executed"])
            dist["executed_set_sizes"][k] = dist["executed_set_sizes"].get(k, 0) + 1
            dist["runs_with_several_allowed_sets"] += len(info.get("allowed", [])) > 1
            dist["failed_runs"] += info["xvc_failed"]
            chk.count((json.dumps(sc["steps"], sort_keys=True), json.dumps(sc["rounds"][:info["round"] + 1], sort_keys=True)),
                      nontrivial_round(info))
            if info["executed"] in [[sc["steps"][i]["name"] for i in a] for a in info.get("allowed", [])]:
                chk.cov["traces_validated_against_impl"] += 1
        dist["model_explicit_schedules_checked"] = dist.get("model_explicit_schedules_checked", 0) + rr.model_orders
        if rr.rounds:
            chk.sample({"scenario": name, "steps": [(st["name"], st["when"], st["deps"], st.get("outs")) for st in sc["steps"]],
                        "runs": [(i["edits"], i["executed"]) for i in rr.rounds]}, limit=4)
        for f in rr.failures:
            pending.append(((name, sc, shift), f))

    # one report per (kind, class): shrink, classify on the shrunk input, report
    seen = set()
    for (name, sc, shift), (kind, what, klass, rnd) in pending:
        key = (kind, klass)
        if key in seen:
            continue
        seen.add(key)
        small, f = sc, (kind, what, klass, rnd)
        if kind in ("oracle", "correspondence") and not name.endswith(".json") and len(seen) <= 6:
            s2, f2 = shrink(xvc, model, sc, key, budget=18 if tier == "quick" else 40)
            if f2 is not None:
                small, f = s2, f2
        kind, what, klass, rnd = f
        chk.fail("oracle" if kind == "oracle" else "correspondence", what,
                 {"input": small, "failing_run": rnd, "scenario": name, "repeats": 6, "class": klass,
                  "code_has_P15_repair": code_fixed, "code_has_P73_repair": GLOB_FIXED,
                  "stale_cache_class_active": STALE_CLASS_ACTIVE,
                  "theorem_or_correspondence": "executed set of every run in the model's all_outcomes (invalmodel vs xvc pipeline run); theorems of Props/C12.v"},
                 name="scen", klass=klass, has_input=(kind == "oracle"))
    chk.cov["rule"] = ("a run is one `xvc pipeline run` of a generated pipeline (2-5 steps, dependency kinds file/glob/glob_items/param/lines/line_items/"
                       "regex/regex_items/generic/sqlite-query/step, outputs read by later steps, when = by_dependencies/always/never) after a list of edits "
                       "(append, touch, crlf, setline, glob add/remove/touch/append/rename, parameter edit, SQLite row selected / not selected by the query, fail/unfail a step, nothing); evaluated = judged by the "
                       "oracle and compared with the model's set of allowed executed sets; non-trivial = not the first run of its scenario (records exist, "
                       "so the executed set is decided by the comparisons); distinct by (pipeline, edit history up to the run)")
    chk.cov["distribution"] = dist
    chk.cov["code_has_P15_repair"] = code_fixed
    chk.cov["code_has_P73_repair"] = GLOB_FIXED
    chk.cov["stale_cache_class_active"] = STALE_CLASS_ACTIVE
    chk.cov["theorems_claimed_for_code"] = (
        ["C12_touch_full_fixed (no class excluded: v_code has v_own_only and v_glob_content)"] if (GLOB_FIXED and gen["code_thorough_own_only"])
        else ["touch_outside_glob_class (class Known_glob_touch excluded: the code compares the metadata digests of a --glob dependency)"])
    chk.cov["exhaustive"] = False
    return chk
