"""Scenario machinery for the extension of the file-repository model (copy / move / remove / untrack):
items, execution on the real binary (on top of vlib/repo.py), the extracted model repoextmodel,
canonical observations and their comparison, an independent glob matcher and an independent replay
of what the records say (used by the oracles of C19 and C05), and the history generator.

Items in addition to those of vlib/repo.py:
  ("copy",    {"as": method|None, "f": bool, "nr": bool, "no": bool}, src, dst)
  ("move",    {"as": method|None, "nr": bool}, src, dst)
  ("remove",  {"v": "cur" | "all" | ["only", hexprefix], "f": bool}, [targets])
  ("untrack", {}, [targets])
"""
import os, re, json, stat
from concurrent.futures import ThreadPoolExecutor
from . import common as C, repo as R

FLAGS_AS_IS = "00000000000"   # fixed_P7 fixed_P8 fixed_mv_absent fixed_P45 fixed_P47 fixed_P3 + core (Repo/Fix.v): fixed_P44 fixed_P41 fixed_P49 fixed_P43 + fixed_P50
FLAG_NAMES = ("fixed_P7", "fixed_P8", "fixed_mv_absent", "fixed_P45", "fixed_P47", "fixed_P3", "fixed_P44", "fixed_P41", "fixed_P49", "fixed_P43", "fixed_P50")


def p50_from_source(text=None):
    """the switch fixed_P50 of Repo/Ext.v (cache_remove / reseal), read from XvcCachePath::remove in
    core/src/types/xvcpath.rs: after fs::remove_file(&abs_cp) the code either does nothing more to the
    directory of the cache file (the code before the repair: False) or sets it read-only again when
    read_dir() still yields an entry (the repair: True).  Any other shape raises R.ProbeError: the check
    then ends as a correspondence failure instead of picking a model"""
    rel = "core/src/types/xvcpath.rs"
    if text is None:
        try:
            text = open(os.path.join(C.REPO, rel)).read()
        except OSError as e:
            raise R.ProbeError("fixed_P50: cannot read %s: %s" % (rel, e))
    m = re.search(r"pub fn remove\(&self,[^)]*\) -> Result<\(\)> \{(.*?)\n    \}\n", text, re.S)
    if not m:
        raise R.ProbeError("fixed_P50: XvcCachePath::remove not found in %s" % rel)
    body = re.sub(r"//[^\n]*", "", m.group(1))
    i, j = body.find("fs::remove_file(&abs_cp)"), body.find("let mut rel_path = self.inner();")
    if not (0 <= i < j) or body.count("fs::remove_file(") != 1:
        raise R.ProbeError("fixed_P50: XvcCachePath::remove in %s no longer has the shape `if abs_cp.exists() { .. fs::remove_file(&abs_cp) .. } let mut rel_path = ..`" % rel)
    head, tail = body[:i], body[i:j]
    # before the deletion: the directory and the file are made writable (dput .. true / chmod_w_through in the model)
    if head.count("set_readonly(false)") != 2 or "set_readonly(true)" in head or not re.search(r"fs::set_permissions\(\s*parent\s*,", head):
        raise R.ProbeError("fixed_P50: the part of XvcCachePath::remove before fs::remove_file is not the modelled one (directory and file set writable)")
    touches = [w for w in ("set_readonly", "set_permissions", "read_dir", "remove_dir", "chmod", "from_mode", "set_mode") if w in tail]
    if not touches:
        return False
    fixed = re.search(r"if\s+parent\s*\.read_dir\(\)\?\s*\.next\(\)\s*\.is_some\(\)\s*\{([^{}]*)\}", tail)
    if fixed and tail.count("set_readonly(") == 1 and tail.count("set_permissions(") == 1 and tail.count("read_dir(") == 1 \
            and re.search(r"let\s+mut\s+(\w+)\s*=\s*parent\s*\.metadata\(\)\?\s*\.permissions\(\);\s*\1\.set_readonly\(true\);\s*fs::set_permissions\(\s*parent\s*,\s*\1\s*\)\?;\s*$", fixed.group(1).strip()) \
            and not any(w in tail for w in ("remove_dir", "chmod", "from_mode", "set_mode")):
        return True
    raise R.ProbeError("fixed_P50: what XvcCachePath::remove does to the directory after fs::remove_file(&abs_cp) is neither the code before the repair "
                       "(nothing) nor the repair (`if parent.read_dir()?.next().is_some() { .. set_readonly(true); fs::set_permissions(parent, ..)?; }`): %r" % " ".join(tail.split())[:400])


def flags_from_source():
    """which of the repairs the working tree of /repo contains (read from the source on every
    run): the model is run with the matching switches, and the theorems cover both values.
    -> 11 characters 0/1 in the order of FLAG_NAMES (positions 6..9: the core switches, probed on the binary)"""
    def src(rel):
        try:
            return open(os.path.join(C.REPO, rel)).read()
        except OSError:
            return ""
    un, mv, cp, cm = src("file/src/untrack/mod.rs"), src("file/src/mv/mod.rs"), src("file/src/copy/mod.rs"), src("file/src/common/mod.rs")
    p7 = "is_hardlink_to" in un
    p8 = "symlink_metadata().unwrap()" not in un and "all_content_digests[xe]" not in un
    m = re.search(r"\(RecheckMethod::Copy, RecheckMethod::Copy\) => \{(.*?)\n                \}", mv, re.S)
    mva = bool(m and re.search(r"!\s*source_path\.exists\(\)", m.group(1)))
    # the fix of P3: a function in common/mod.rs that copies a cache file to the cache path of another workspace path
    # (two XvcCachePath::new of one digest, fs::copy), called by cmd_copy and by cmd_move before the first store is
    # written (with_r11store_mut / with_store_mut); the pre-check asks for the content at either cache path
    fn = re.search(r"pub fn (\w+)\(\s*xvc_root: &XvcRoot,\s*source_path: &XvcPath,\s*dest_path: &XvcPath,\s*content_digest: &ContentDigest,\s*\) -> Result<\(\)> \{(.*?)\n\}\n", cm, re.S)
    share = fn.group(1) if fn and fn.group(2).count("XvcCachePath::new(") >= 2 and "fs::copy(" in fn.group(2) else None
    def before_records(text, call, first_write):
        i, j = text.find(call + "("), text.find(first_write)
        return 0 <= i < j
    p3 = bool(share) and before_records(cp[cp.find("pub fn cmd_copy"):], share, "with_r11store_mut(") \
        and before_records(mv[mv.find("pub fn cmd_move"):], share, "with_store_mut(")
    # the pre-check of the P45 fix: cmd_move looks up the cache path of the destination before it changes any record
    # (since the fix of P3 through the availability function, which looks at the cache paths of both names)
    p45 = "is not in the cache" in mv and (bool(re.search(r"XvcCachePath::new\(dest_path, cd\)", mv)) or p3)
    # the fix of P47: untrack skips a link whose cache file is gone
    p47 = "its content is not in the cache" in un
    # the switches of the core commands track / carry-in (Repo/Fix.v) are probed on the binary (vlib/repo.py:probe_fixes;
    # an inconclusive probe raises R.ProbeError: the check then fails as a correspondence failure without input)
    # the fix of P50 (finding of C02): XvcCachePath::remove sets the directory read-only again when cache files stay in it
    p50 = p50_from_source()
    return "".join("1" if b else "0" for b in (p7, p8, mva, p45, p47, p3)) + R.current_fixes() + ("1" if p50 else "0")
MINE = ("copy", "move", "remove", "untrack")

TRUSTED = [
    "Coq 8.16.1 kernel, coqc; vm_compute in Examples only; no native_compute",
    "axioms: none (Print Assumptions: Closed under the global context)",
    "extraction: ExtrOcamlBasic only; ocamlfind ocamlopt 4.13.1; coq/extract/common.ml + repoext_driver.ml (parsing/printing; its core part is a textual copy of repo_driver.ml)",
    "correspondence: vlib/repo.py + vlib/repoext.py (scenario runner on the hook-instrumented xvc binary built from /repo, observer of workspace / cache / store event logs, canonicaliser); tools/blake3_ref.py and Python hashlib as independent hash implementations",
    "modelled, not verified: file/src/{copy,mv,remove,untrack}/mod.rs, file/src/common/mod.rs (filter_targets_from_store, filter_paths_by_globs, build_glob_matcher without its is_dir test, cache_paths_for_xvc_paths, recheck_from_cache; with the repair of P3 in the tree: cache_file_available_for_path, copy_cache_file_for_path = Ext.available / Ext.share_object, whose temporary file is not modelled), file/src/recheck/mod.rs::make_recheck_handler, core/src/types/xvcpath.rs (XvcCachePath::new/remove, XvcPath::join/join_file_name/parents) as Repo/Ext.v over Repo/Model.v (track / carry-in / recheck, the file system with inodes) and Glob/Match.v (fast-glob); hash functions are ideal; --only-version prefixes are given to the model as the set of digests they match; the component stores are seen through their loaded maps (justified by C08); commands run from the repository root (C18 is a separate property); .gitignore handling, --from-storage and --restore-versions are not in the model (the real-run oracles still apply to --restore-versions runs)",
    "reachability theorems (Repo/ExtReach.v) rest on INV of Repo/Inv.v (b-repo-core) and its preservation by track / carry-in / recheck outside that file's monitor `unclean`; the extracted predicate ExtReach.xclean is evaluated on every generated history and the count of items inside the theorems' domain is reported in the distribution",
    "the model switches fixed_P7 / fixed_P8 / fixed_mv_absent / fixed_P45 / fixed_P47 / fixed_P3 are read from the text of file/src/{untrack,mv,copy,common}/mod.rs (presence of the repaired constructs), fixed_P50 from XvcCachePath::remove in core/src/types/xvcpath.rs (what happens to the directory after fs::remove_file: nothing / read-only again when read_dir() is not empty; any other shape is a correspondence failure); a wrong reading shows up as a correspondence failure (the corpus witnesses of each class run first; the directory mode of every cache object is part of the compared observation)",
    "the visiting order of the targets of one command (HashMap iteration) is a parameter of the model; it only matters when a command panics half-way: on such items the workspace part of multi-target observations is not compared",
    "environment assumptions: edits_visible (every user write gets a distinct explicit mtime); POSIX rename/link/symlink/unlink semantics",
]


# ---- items <-> text ----------------------------------------------------------------------------------
def item_to_model(it, cfg, norms):
    k = it[0]
    if k not in MINE:
        return R.item_to_model(it)
    o = it[1]
    if k == "copy":
        opts = (["as=" + o["as"]] if o.get("as") else []) + [f for f, key in (("f", "f"), ("nr", "nr"), ("no", "no")) if o.get(key)]
        return "copy %s -- %s %s" % (" ".join(opts), R.hx(it[2]), R.hx(it[3]))
    if k == "move":
        opts = (["as=" + o["as"]] if o.get("as") else []) + (["nr"] if o.get("nr") else [])
        return "move %s -- %s %s" % (" ".join(opts), R.hx(it[2]), R.hx(it[3]))
    if k == "remove":
        v = o.get("v", "cur")
        if isinstance(v, (list, tuple)):
            pre = v[1].replace("-", "")
            if pre == "":
                vs = "any"
            else:
                m = [n for n in norms if R.ref_hash(cfg["algo"], n).startswith(pre)]
                vs = "only:" + "+".join((n.hex() or "_") for n in m)
        else:
            vs = v
        return "remove v=%s %s -- %s" % (vs, "f" if o.get("f") else "", " ".join(R.hx(p) for p in it[2]))
    return "untrack -- %s" % " ".join(R.hx(p) for p in it[2])


def norms_of(items):
    """every normal form a content written in the history can be hashed in"""
    s = set()
    for it in items:
        if it[0] in ("W", "T"):
            s.add(it[2]); s.add(R.strip_crlf(it[2]))
    return sorted(s)


def history_to_model(cfg, items, flags=FLAGS_AS_IS):
    norms = norms_of(items)
    return "repo %s %s %s %s | %s" % (cfg["algo"], cfg["method"], cfg["tob"], flags,
                                      " ; ".join(item_to_model(i, cfg, norms) for i in items))


def item_to_json(it):
    return R.item_to_json(it)


def item_from_json(j):
    k = j[0]
    if k in ("copy", "move"):
        return (k, j[1], j[2], j[3])
    if k in ("remove", "untrack"):
        return (k, j[1], list(j[2]))
    return R.item_from_json(j)


# ---- model observations -------------------------------------------------------------------------------------
def parse_model_obs(txt):
    m = re.match(r"(.*) dirs=(\S*) clean=([01])$", txt)
    if not m:
        return {"error": txt[:300]}
    o = R.parse_model_obs(m.group(1))
    if "error" not in o:
        o["dirs"] = sorted(bytes.fromhex(h).decode("utf-8", "replace") for h in m.group(2).split(",") if h)
        o["clean"] = m.group(3) == "1"
    return o


def run_model(model_bin, histories, flags=FLAGS_AS_IS):
    """histories: list of (cfg, items) -> list of lists of canonical observations"""
    lines = [history_to_model(cfg, items, flags) for cfg, items in histories]
    rc, out = C.run_lines(model_bin, lines, shards=4)
    return [[parse_model_obs(x) for x in l.split(" | ")] for l in out]


# ---- real execution ---------------------------------------------------------------------------------------------
def dir_records(root):
    paths, _ = R.replay_store(root, "xvc-path-store")
    metas, _ = R.replay_store(root, "xvc-metadata-store")
    return sorted(p for e, p in paths.items() if (metas.get(e) or {}).get("file_type") == "Directory")


def observe(root, oc):
    o = R.observe_real(root, oc)
    o["dirs"] = dir_records(root)
    o["nlink"] = {}
    for p in o["ws"]:
        try:
            st = os.lstat(os.path.join(root, p))
            o["nlink"][p] = 1 if stat.S_ISLNK(st.st_mode) else st.st_nlink
        except OSError:
            pass
    return o


class XRun(R.RealRun):
    def do(self, it):
        k = it[0]
        if k == "W":
            # user_write of the model: the entry is REPLACED (unlink, then create), whatever it was; a
            # writable hard link left behind by untrack (P7) would otherwise be written through
            p = self.repo.path(it[1])
            if os.path.lexists(p):
                os.unlink(p)
            return super().do(it)
        if k not in MINE:
            return super().do(it)
        o = it[1]
        args = ["-vv"] + self.cfg_args() + ["file"]
        if k == "copy":
            args += ["copy"] + (["--recheck-method", o["as"]] if o.get("as") else []) + (["--force"] if o.get("f") else []) \
                + (["--no-recheck"] if o.get("nr") else []) + (["--name-only"] if o.get("no") else []) + [it[2], it[3]]
        elif k == "move":
            args += ["move"] + (["--recheck-method", o["as"]] if o.get("as") else []) + (["--no-recheck"] if o.get("nr") else []) + [it[2], it[3]]
        elif k == "remove":
            args += ["remove", "--from-cache"]
            v = o.get("v", "cur")
            if v == "all":
                args += ["--all-versions"]
            elif isinstance(v, (list, tuple)):
                args += ["--only-version", v[1]]
            if o.get("f"):
                args += ["--force"]
            args += list(it[2])
        else:
            args += ["untrack"]
            if o.get("restore"):
                args += ["--restore-versions", o["restore"]]
            args += list(it[2])
        res = self.repo.xvc(*args)
        self.log.append((args, res.rc, "\n".join(l for l in (res.err + "\n" + res.out).split("\n") if "[ERROR]" in l or "panicked" in l)[-500:]))
        return ("Panic" if res.panicked else ("Err" if res.failed else "Ok")), res

    def run(self, items, stop_on_panic=True):
        obs = []
        for it in items:
            oc, res = self.do(it)
            obs.append(observe(self.root, oc))
            if oc == "Panic" and stop_on_panic:
                break
        return obs, list(items[:len(obs)])


class Scenario:
    def __init__(self, idx, cfg, items, parallel=False):
        self.idx, self.cfg, self.items, self.parallel = idx, cfg, items, parallel
        self.robs = self.eff = self.log = None


def execute(xvc, sc, attempts=2):
    """runs the scenario in a fresh scratch repository; a run that dies of an environment failure
    (scratch file system full, ...) is repeated once from scratch before the error is let through"""
    for k in range(attempts):
        rr = None
        try:
            rr = XRun(xvc, sc.cfg, parallel=sc.parallel)
            sc.robs, sc.eff = rr.run(sc.items)
            sc.log = rr.log
            return sc
        except (OSError, ValueError, RuntimeError):
            if k + 1 == attempts:
                raise
        finally:
            if rr is not None:
                rr.close()
    return sc


def run_scenarios(xvc, scs, threads=10):
    with ThreadPoolExecutor(threads) as ex:
        return list(ex.map(lambda s: execute(xvc, s), scs))


def to_replay(sc, j=None):
    return {"cfg": sc.cfg, "parallel": sc.parallel,
            "items": [item_to_json(i) for i in (sc.items if j is None else sc.items[:j + 1])]}


def from_replay(rep, idx=0):
    return Scenario(idx, rep["cfg"], [item_from_json(i) for i in rep["items"]], rep.get("parallel", False))


def shrink_scenario(xvc, sc, fails, max_rounds=30):
    def still(items):
        s2 = Scenario(sc.idx, sc.cfg, items, sc.parallel)
        try:
            execute(xvc, s2)
            return bool(fails(s2))
        except Exception:
            return False
    items = C.shrink_list(sc.items, still, max_rounds=max_rounds)
    return execute(xvc, Scenario(sc.idx, sc.cfg, items, sc.parallel))


# ---- comparison ---------------------------------------------------------------------------------------------------
def n_targets(it, prev):
    """how many tracked paths the item touches (upper bound, by the independent matcher)"""
    if it[0] in ("copy", "move"):
        return len(match_sources(prev, it[2]))
    if it[0] in ("remove", "untrack"):
        return len(match_targets(prev, it[2])) + len([d for d in (prev or {}).get("dirs", []) if any(glob_hit(t, d, prev) for t in it[2])])
    return 1


def diff_obs(m, r, skip_ws=False):
    out = []
    if "error" in m:
        return ["model error: " + m["error"]]
    norm = lambda oc: "Ok" if oc == "Err" else oc      # Err/Ok are told apart by the oracles (message based)
    if norm(m["oc"]) != norm(r["oc"]):
        out.append("outcome: model %s, implementation %s" % (m["oc"], r["oc"]))
    for sec in ("ws", "objs", "recs"):
        if sec == "ws" and skip_ws:
            continue
        for k in sorted(set(m[sec]) | set(r[sec])):
            if m[sec].get(k) != r[sec].get(k):
                out.append("%s[%s]: model %s, implementation %s" % (sec, k, R.short(m[sec].get(k)), R.short(r[sec].get(k))))
    if m.get("dirs") != r.get("dirs"):
        out.append("directory records: model %s, implementation %s" % (m.get("dirs"), r.get("dirs")))
    return out


def strict_outcome_diff(m, r):
    return m["oc"] != r["oc"]


def correspond(model_bin, sc, flags=FLAGS_AS_IS):
    """None, or (item index, differences)"""
    mobs = run_model(model_bin, [(sc.cfg, sc.eff)], flags)[0]
    sc.clean_prefix = 0
    for m in mobs:
        if not m.get("clean"):
            break
        sc.clean_prefix += 1
    for j, (m, r) in enumerate(zip(mobs, sc.robs)):
        it = sc.eff[j]
        prev = sc.robs[j - 1] if j else None
        # a command that stops half-way (panic; move: I/O error inside its loop) has done an arbitrary
        # part of its per-target work: the visiting order is HashMap iteration order
        skip_ws = (r["oc"] == "Panic" or (r["oc"] == "Err" and it[0] == "move")) and it[0] in MINE and n_targets(it, prev) > 1
        d = diff_obs(m, r, skip_ws)
        if not d and it[0] in MINE and m["oc"] != r["oc"]:
            d = ["outcome: model %s, implementation %s" % (m["oc"], r["oc"])]
        if d:
            return j, d
        if r["oc"] == "Panic" or skip_ws:
            break                      # the state after a half-done command depends on the visiting order
    else:
        j = len(sc.robs)
    if len(mobs) < len(sc.robs) and j >= len(mobs):
        return len(mobs), ["model produced %d observations, implementation %d" % (len(mobs), len(sc.robs))]
    return None


# ---- independent reading of the property texts ------------------------------------------------------------------
def glob_re(g):
    out, i = "", 0
    while i < len(g):
        if g.startswith("**", i):
            out += ".*"; i += 2
        elif g[i] == "*":
            out += "[^/]*"; i += 1
        else:
            out += re.escape(g[i]); i += 1
    return re.compile("^" + out + "$")


def glob_hit(t, p, prev):
    """does the command-line target t select the stored path p?  (file, directory, `dir/`, glob)"""
    if t.endswith("/"):
        return p.startswith(t)
    if "*" in t:
        return bool(glob_re(t).match(p))
    return p == t or p.startswith(t + "/")


def match_targets(prev, targets):
    """tracked FILE paths selected by the targets of remove / untrack"""
    if prev is None:
        return []
    return sorted(p for p in prev["recs"] if any(glob_hit(t, p, prev) for t in targets))


def match_sources(prev, src):
    """tracked file paths selected by the source of copy / move: `src/` means the files directly in src"""
    if prev is None:
        return []
    if src.endswith("/"):
        return sorted(p for p in prev["recs"] if p.startswith(src) and "/" not in p[len(src):])
    return match_targets(prev, [src])


def committed_bytes(obs, path, digest=None):
    """the bytes of the cache object of `path`'s recorded digest (None if no such object)"""
    rec = obs["recs"].get(path)
    d = digest or (rec[0] if rec else None)
    if not d or d == "-":
        return None
    e = obs["objs"].get("%s/%s" % (d, R.ext_of(path)))
    return None if e is None or e[3] in ("!", "?") else bytes.fromhex(e[3])


def actual_digest(cfg_algo, tob, data):
    text = tob == "text" or (tob == "auto" and R.is_text(data))
    return "%s/%s" % (cfg_algo, R.ref_hash(cfg_algo, R.strip_crlf(data) if text else data))


def ws_bytes(obs, p):
    e = obs["ws"].get(p)
    return None if e is None or e[2] == "!" else bytes.fromhex(e[2])


def modified(obs, p, algo):
    """the workspace file of tracked path p has bytes whose digest differs from the recorded one"""
    b = ws_bytes(obs, p)
    rec = obs["recs"].get(p)
    if b is None or rec is None or rec[0] == "-":
        return False
    return actual_digest(algo, rec[2] if rec[2] in R.TOBS else "auto", b) != rec[0]


# ---- history generation ---------------------------------------------------------------------------------------------
PATHS = ["a.txt", "b.txt", "d/a.txt", "d/c.txt", "d/e/f.txt", "x.dat", "d/y.dat", "noext", "sp ace.txt", "ü.txt",
         "w.json", "d/v.tar.gz", "U.TXT"]       # extensions of other lengths and cases, a double extension
CONTENTS = [b"hello\n", b"other", b"", b"\0bin", b"v2\n", b"v3 is longer\n", b"line1\nline2\n"]
NEW_FILES = ["n.txt", "d/n.txt", "q/r.txt", "m.txt", "noext2", "k.dat", "j.json", "t.gz"]
NEW_DIRS = ["n/", "q/w/", "d/", "z/"]


def gen_history(rng, focus, fixed_p3=False):
    """focus 'copy' (C19) or 'remove' (C05).  Returns (cfg, items).  fixed_p3: the working tree has the repair of
    P3, destinations with another extension are no longer a known class: more of them are generated"""
    pc = (0.40, 0.50, 0.65) if fixed_p3 else (0.50, 0.62, 0.82)
    cfg = {"algo": rng.choice(list(R.ALGOS)) if rng.random() < 0.3 else "b3",
           "method": rng.choice(["copy", "hardlink", "symlink", "reflink"]) if rng.random() < 0.5 else "copy",
           "tob": rng.choice(R.TOBS) if rng.random() < 0.15 else "auto"}
    paths = rng.sample(PATHS, rng.randint(2, 4))
    pool = rng.sample(CONTENTS, rng.randint(2, 3))      # small pool: equal contents at several paths and versions
    items = []
    versions = {}                                        # path -> list of contents committed so far (generator's guess)
    tracked = []

    def track(p):
        items.append(("track", {"m": rng.choice(["copy", "hardlink", "symlink"]) if rng.random() < 0.45 else None}, [p]))

    for p in paths:
        c = rng.choice(pool)
        items.append(("W", p, c)); track(p)
        versions[p] = [c]; tracked.append(p)

    def some_target(kind_weights=(5, 2, 2)):
        k = rng.choices(["file", "dir", "glob"], kind_weights)[0]
        if k == "file" or not tracked:
            return rng.choice(tracked or paths)
        if k == "dir":
            ds = sorted({p.rsplit("/", 1)[0] + "/" for p in tracked if "/" in p})
            return rng.choice(ds) if ds else rng.choice(tracked)
        return rng.choice(["*.txt", "d/*", "d/*.txt", "*", "d/**", "*.dat"])

    def dest_for(src):
        r = rng.random()
        if src.endswith("/") or "*" in src:
            return rng.choice(NEW_DIRS) if r < 0.9 else rng.choice(NEW_FILES)
        ext = R.ext_of(src)
        if r < pc[0]:
            cands = [f for f in NEW_FILES if R.ext_of(f) == ext and f not in tracked]
            return rng.choice(cands) if cands else "copy-of-" + src.replace("/", "-")
        if r < pc[1]:
            return rng.choice(NEW_DIRS)
        if r < pc[2] and tracked:
            same = [p for p in tracked if R.ext_of(p) == ext]
            return rng.choice(same or tracked)
        if r < 0.92:
            return rng.choice([f for f in NEW_FILES if R.ext_of(f) != ext])           # cross-extension (P3)
        return "u-" + src.replace("/", "-")

    n = rng.randint(4, 9)
    for _ in range(n):
        r = rng.random()
        p = rng.choice(tracked) if tracked else rng.choice(paths)
        if r < 0.12:                       # a new committed version (old versions may equal other paths' current ones)
            c = rng.choice(pool + [rng.choice(CONTENTS)])
            items.append(("W", p, c)); track(p); versions.setdefault(p, []).append(c)
        elif r < 0.18:
            items.append(("W", p, rng.choice(CONTENTS)))          # modified, not committed
        elif r < 0.27:
            items.append(("D", p))                                # absent from the workspace
        elif r < 0.31:
            items.append(("recheck", {"m": rng.choice(["copy", "hardlink", "symlink"]) if rng.random() < 0.6 else None, "f": rng.random() < 0.5}, [p]))
        else:
            if focus == "copy":
                cmd = rng.choices(["copy", "move", "remove", "untrack"], (9, 9, 1, 1))[0]
            else:
                cmd = rng.choices(["copy", "move", "remove", "untrack"], (3, 2, 8, 8))[0]
            if cmd in ("copy", "move"):
                src = some_target((6, 2, 2))
                dst = dest_for(src)
                if src in tracked:                                # the three states of a source the property names
                    st = rng.random()
                    if st < 0.15:
                        items.append(("W", src, rng.choice([c for c in CONTENTS if c not in versions.get(src, [])[-1:]])))   # modified
                    elif st < 0.30:
                        items.append(("D", src))                  # absent
                if cmd == "copy":
                    o = {"as": rng.choice(["copy", "hardlink", "symlink"]) if rng.random() < 0.3 else None,
                         "f": rng.random() < 0.25, "nr": rng.random() < 0.2,
                         "no": rng.random() < 0.3 and dst.endswith("/") and "*" not in src}
                else:
                    o = {"as": rng.choice(["copy", "hardlink", "symlink"]) if rng.random() < 0.3 else None, "nr": rng.random() < 0.2}
                items.append((cmd, o, src, dst))
                # generator's bookkeeping (approximate: it only steers later choices)
                if not dst.endswith("/") and "*" not in src and not src.endswith("/"):
                    if dst not in tracked:
                        tracked.append(dst)
                    versions[dst] = list(versions.get(src, []))[-1:]
                    if cmd == "move" and src in tracked:
                        tracked.remove(src)
                    if rng.random() < 0.5:                        # is the destination restorable?
                        items.append(("D", dst)); items.append(("recheck", {}, [dst]))
                elif dst.endswith("/") and not src.endswith("/") and "*" not in src:
                    nd = dst + (src.rsplit("/", 1)[-1] if o.get("no") else src)
                    tracked.append(nd); versions[nd] = list(versions.get(src, []))[-1:]
                    if cmd == "move" and src in tracked:
                        tracked.remove(src)
            elif cmd == "remove":
                tg = [some_target()] + ([some_target()] if rng.random() < 0.3 else [])
                v = rng.random()
                if v < 0.45:
                    vo = "cur"
                elif v < 0.7:
                    vo = "all"
                else:
                    vs = [c for q in tracked for c in versions.get(q, [])] or pool
                    c = rng.choice(vs)
                    text = cfg["tob"] == "text" or (cfg["tob"] == "auto" and R.is_text(c))
                    h = R.ref_hash(cfg["algo"], R.strip_crlf(c) if text else c)
                    k = rng.choice([0, 3, 6, 9])
                    pre = h[:k]
                    if k >= 6 and rng.random() < 0.5:
                        pre = pre[:3] + "-" + pre[3:]
                    vo = ["only", pre]
                items.append(("remove", {"v": vo, "f": rng.random() < 0.15}, tg))
                others = [q for q in tracked if q not in tg]
                if others and rng.random() < 0.6:                 # are the others still restorable?
                    q = rng.choice(others)
                    items.append(("D", q)); items.append(("recheck", {}, [q]))
            else:
                tg = [some_target()] + ([some_target()] if rng.random() < 0.3 else [])
                items.append(("untrack", {}, tg))
                for t in tg:
                    if t in tracked:
                        tracked.remove(t)
                others = [q for q in tracked if q not in tg]
                if others and rng.random() < 0.6:
                    q = rng.choice(others)
                    items.append(("D", q)); items.append(("recheck", {}, [q]))
    return cfg, items


# ---- the part of a check run shared by C19 and C05 -----------------------------------------------------------------
def restore_oracle(sc):
    """a plain `recheck p` of a tracked path that is absent from the workspace and whose object exists
    must bring back exactly the committed bytes (C01.1, used here for 'the destination is restorable'
    and 'the other paths stay restorable').  Returns [(item, what, class)]"""
    bad = []
    for j, it in enumerate(sc.eff):
        if it[0] != "recheck" or j == 0 or j >= len(sc.robs) or it[1].get("m") or it[1].get("f"):
            continue
        prev, cur = sc.robs[j - 1], sc.robs[j]
        for p in it[2]:
            if p in prev["recs"] and p not in prev["ws"]:
                want = committed_bytes(prev, p)
                if want is not None and ws_bytes(cur, p) != want:
                    bad.append((j, "recheck of %s did not restore the committed bytes (%s instead of %s)" % (
                        p, R.short((ws_bytes(cur, p) or b"<absent>").hex()), R.short(want.hex())), None))
    return bad


def run_property(chk, replay, focus, oracle, classify_corr, nontrivial, rule, n_quick, n_thorough, theorem_names):
    import time
    chk.cov["trusted_base"] = TRUSTED
    chk.assumptions += ["ideal hash functions in the model; the oracles compare digests as recorded in the store event logs and re-read every cache object",
                        "edits_visible: user writes get distinct explicit modification times"]
    chk.proof()
    flags = flags_from_source()
    chk.cov["model_switches"] = dict({n: flags[i] == "1" for i, n in enumerate(FLAG_NAMES)},
                                     read_from="file/src/{untrack,mv,copy,common}/mod.rs and core/src/types/xvcpath.rs of the working tree; fixed_P44/P41/P49/P43 probed on the binary")
    model = C.ensure_model("Repoext", ["Base", "Repo", "Glob"])
    xvc = C.ensure_xvc()
    scs = []
    if replay:
        scs = [from_replay(replay)]
    else:
        cdir = os.path.join(C.ROOT, "corpus", chk.prop)
        for f in sorted(os.listdir(cdir)) if os.path.isdir(cdir) else []:
            if f.endswith(".json"):
                scs.append(from_replay(json.load(open(os.path.join(cdir, f))), len(scs)))
        ncorpus = len(scs)
        n = n_quick if chk.tier == "quick" else n_thorough
        for i in range(n):
            cfg, items = gen_history(chk.rng, focus, fixed_p3=flags[5] == "1")
            scs.append(Scenario(len(scs), cfg, items))
    t0 = time.time()
    run_scenarios(xvc, scs, threads=10 if chk.tier == "quick" else 14)
    dist = {"scenarios": len(scs), "items": 0, "copy": 0, "move": 0, "remove": 0, "untrack": 0, "track": 0, "recheck": 0, "carry": 0,
            "user": 0, "Ok": 0, "Err": 0, "Panic": 0, "real_run_s": round(time.time() - t0, 1)}
    reported = 0
    agreed = 0
    dom = {"items_inside_theorem_domain": 0, "histories_entirely_inside": 0}
    for sc in scs:
        chk.count(json.dumps(to_replay(sc), sort_keys=True), nontrivial(sc))
        for it, o in zip(sc.eff, sc.robs):
            dist["items"] += 1
            dist[it[0] if it[0] in dist else "user"] += 1
            if it[0] in MINE:
                dist[o["oc"]] += 1
        bad = oracle(sc) + restore_oracle(sc)
        unknown = [b for b in bad if b[2] is None]
        seen_classes = set()
        for j, what, klass in bad:
            if klass is None or klass in seen_classes:
                continue
            seen_classes.add(klass)
            chk.fail("oracle", what, dict(to_replay(sc, j), failing_item=j, kind="impl-history"), name=klass, klass=klass)
        if unknown and reported < 3:
            j, what, klass = unknown[0]
            s2 = sc
            if not replay:
                s2 = shrink_scenario(xvc, sc, lambda s: any(k is None for _, _, k in oracle(s) + restore_oracle(s)))
                b2 = [b for b in oracle(s2) + restore_oracle(s2) if b[2] is None]
                if b2:
                    j, what, klass = b2[0]
            chk.fail("oracle", what, dict(to_replay(s2), failing_item=j, kind="impl-history", log=[l for l in (s2.log or [])][-3:]), name="oracle")
            reported += 1
            continue
        mm = correspond(model, sc, flags)
        dom["items_inside_theorem_domain"] += getattr(sc, "clean_prefix", 0)
        dom["histories_entirely_inside"] += getattr(sc, "clean_prefix", 0) >= len(sc.robs)
        if mm is None:
            agreed += 1
        elif reported < 3:
            j, diffs = mm
            klass = classify_corr(sc, j)
            chk.fail("correspondence", "model and implementation differ at item %d (%s): %s" % (j, sc.eff[j][0] if j < len(sc.eff) else "?", "; ".join(diffs[:3])),
                     dict(to_replay(sc), failing_item=j, diffs=diffs[:10], theorem_or_correspondence=", ".join(theorem_names) + "; correspondence repoextmodel vs xvc"),
                     name="corr", klass=klass, has_input=False)
            reported += klass is None
    for sc in scs[-3:]:
        chk.sample(to_replay(sc))
    chk.cov["traces_validated_against_impl"] = agreed
    dist.update(dom)
    chk.cov["distribution"] = dist
    chk.cov["rule"] = rule
    return chk
