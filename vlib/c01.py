"""C01 -- committed file content is restored byte for byte.
proof (Props/C01.v) + correspondence repomodel (extracted M-REPO) vs the real xvc binary + an oracle
written from the property text: the bytes a user had in the workspace when track / carry-in recorded a
digest they hash to (re-hashed independently) must be what a recheck gives back after the copy was
deleted or damaged (--force), for every method, serial and parallel; no recheck moves the record."""
from . import common as C, repo as R, repocheck as K


def nontrivial(sc):
    """the history commits a file and later restores it: a recheck of a tracked path that was absent
    before the command, or a recheck --force over a modified copy"""
    for j, it, b, a in K.before_after(sc):
        if it[0] == "recheck" and a["oc"] != "Panic":
            for p in it[2]:
                if p in b["recs"] and (p not in b["ws"] or it[1].get("f")) and K.addr_of(b["recs"][p], p) in b["objs"]:
                    return True
    return False


def run(chk, replay=None):
    chk.assumptions += ["ideal hash functions in the model; the oracle re-hashes with the reference BLAKE3 / hashlib",
                        "edits_visible: every user write of the runner gets a distinct explicit mtime"]
    return K.drive(chk, replay, "C01", K.gen_c01, K.c01_oracle, nontrivial, n_quick=100, n_thorough=800,
                   rule=("histories = writes of 1-3 paths (nested, no extension, blanks, non-ASCII, dotfile, double extension; contents incl. empty, "
                         "CR/LF mixes, files differing only in line endings, NUL at byte 7999/8000/8001, duplicates), a commit by track or by "
                         "track --no-commit + carry-in, 1-5 later user actions / track / carry-in / recheck commands, then for every path a probe: "
                         "delete + recheck or damage + recheck --force with one of the 4 methods or the stored one; 4 algorithms, 3 text-or-binary "
                         "modes, 4 default methods; odd histories parallel, even ones --no-parallel; `xvc file list` after every recheck. "
                         "non-trivial = a recheck restores a committed path that was absent or is forced over a modified copy; distinct by whole history"),
                   theorems="recheck_restores_committed / force_replaces_modified_copy / force_keeps_recorded_version / track_commits_content / stays_restorable",
                   list_kinds=("recheck",))
