"""C01 -- committed file content is restored byte for byte.
proof (Props/C01.v) + correspondence repomodel (extracted M-REPO) vs the real xvc binary + an oracle
written from the property text: the bytes a user had in the workspace when track / carry-in recorded a
digest they hash to (re-hashed independently) must be what a recheck gives back after the copy was
deleted or damaged (--force), for every method, serial and parallel; no recheck moves the record."""
from . import common as C, repo as R, repocheck as K


def nontrivial(sc):
    """the history commits a file and later restores it: a recheck of a tracked path that was absent
    before the command, or a recheck --force over a modified copy"""
    for j, it, b, a in K.before_after(sc):
        if it[0] == "recheck" and a["oc"] != "Panic":
            for p in it[2]:
                if p in b["recs"] and (p not in b["ws"] or it[1].get("f")) and K.addr_of(b["recs"][p], p) in b["objs"]:
                    return True
    return False


def obstruction_probe(xvc, rng, parallel, force=None):
    """oracle only (directories are not entries of M-REPO): several committed files are deleted, a directory
    is put where one of them was, and ONE recheck command is asked to restore them all.  The obstructed
    path cannot be restored; every other one must be ("reproduces exactly the committed bytes at that
    path ... in serial or parallel mode").  Returns (scenario description, list of problems)."""
    import os
    from .xvc import XvcRepo
    n = rng.randint(5, 9)
    names = ["f%02d.%s" % (i, rng.choice(["txt", "dat", "bin"])) for i in range(n)]
    if rng.random() < 0.5:
        names = ["d/" + x if i % 2 else x for i, x in enumerate(names)]
    method = rng.choice(["copy", "hardlink", "symlink"])
    blocked = rng.choice(names)
    sc = {"files": names, "method": method, "blocked": blocked, "parallel": parallel}
    bad = []
    with XvcRepo(xvc, prefix="c01obs", git=False) as rp:
        want = {}
        for i, x in enumerate(names):
            want[x] = ("content of %s #%d\n" % (x, i)).encode()
            rp.write(x, want[x])
        r = rp.xvc("--skip-git", "file", "track", "--recheck-method", method, *names)
        if r.failed:
            return sc, []
        for x in names:
            os.unlink(rp.path(x))
        os.mkdir(rp.path(blocked))
        # --force selects every target (also the obstructed one, whose restore then fails); without it the
        # obstructed path is not selected at all
        force = (rng.random() < 0.7) if force is None else force
        sc["force"] = force
        args = ["--skip-git", "file", "recheck"] + (["--force"] if force else []) + (["--no-parallel"] if not parallel else [])
        rp.xvc(*args)
        for x in names:
            if x == blocked:
                continue
            got = rp.read(x)
            if got != want[x]:
                bad.append("after deleting %d committed files and putting a directory at %s, `xvc file recheck%s` did not restore %s (%s)" % (
                    n, blocked, "" if parallel else " --no-parallel", x, "absent" if got is None else "other bytes"))
    return sc, bad


def run(chk, replay=None):
    chk.assumptions += ["ideal hash functions in the model; the oracle re-hashes with the reference BLAKE3 / hashlib",
                        "edits_visible: every user write of the runner gets a distinct explicit mtime"]
    if replay and replay.get("kind") == "invisible-damage":
        xvc = C.ensure_xvc()
        chk.proof()
        import random
        from . import c01x
        sc, bad = c01x.invisible_damage_probe(xvc, random.Random(replay["rseed"]), replay["parallel"])
        for w in bad[:1]:
            chk.fail("oracle", w, {"kind": "invisible-damage", "rseed": replay["rseed"], "parallel": replay["parallel"], "scenario": sc}, name="invisible")
        return
    if replay and replay.get("kind") == "obstruction":
        xvc = C.ensure_xvc()
        chk.proof()
        import random
        sc, bad = obstruction_probe(xvc, random.Random(replay["rseed"]), replay["parallel"], replay.get("force"))
        for w in bad[:1]:
            chk.fail("oracle", w, {"kind": "obstruction", "rseed": replay["rseed"], "parallel": replay["parallel"], "scenario": sc}, name="obstruction")
        return
    res = K.drive(chk, replay, "C01", K.gen_c01, K.c01_oracle, nontrivial, n_quick=100, n_thorough=500,
                   rule=("histories = writes of 1-3 paths (nested, no extension, blanks, non-ASCII, dotfile, double extension; contents incl. empty, "
                         "CR/LF mixes, files differing only in line endings, NUL at byte 7999/8000/8001, duplicates), a commit by track or by "
                         "track --no-commit + carry-in, 1-5 later user actions / track / carry-in / recheck commands, then for every path a probe: "
                         "delete + recheck or damage + recheck --force with one of the 4 methods or the stored one; 4 algorithms, 3 text-or-binary "
                         "modes, 4 default methods; odd histories parallel, even ones --no-parallel; `xvc file list` after every recheck. "
                         "non-trivial = a recheck restores a committed path that was absent or is forced over a modified copy; distinct by whole history"),
                   theorems="recheck_restores_committed(_x) / force_replaces_modified_copy(_x) / force_keeps_recorded_version / track_commits_content / track_all_commit_content / stays_restorable(_x) / carry_in_keeps_missing_target",
                   list_kinds=("recheck",))
    if not replay:
        import random
        xvc = C.ensure_xvc()
        nobs, nbad = (12 if chk.tier == "quick" else 80), 0
        for i in range(nobs):
            rseed = chk.rng.randrange(1 << 30)
            # both loops of recheck (the flag selects them), mostly with --force (which selects every target)
            sc, bad = obstruction_probe(xvc, random.Random(rseed), parallel=bool(i % 2), force=(i % 4 != 0))
            chk.count(("obstruction", rseed, i % 2), True)
            if bad and nbad < 2:
                nbad += 1
                chk.fail("oracle", bad[0], {"kind": "obstruction", "rseed": rseed, "parallel": bool(i % 2), "force": (i % 4 != 0), "scenario": sc, "all": bad[:10]}, name="obstruction")
        chk.cov.setdefault("distribution", {})["obstruction_probes"] = nobs
        # damage that cannot be seen in the metadata (same size and mtime) + recheck --force
        from . import c01x
        ninv, nbad = (8 if chk.tier == "quick" else 60), 0
        for i in range(ninv):
            rseed = chk.rng.randrange(1 << 30)
            sc, bad = c01x.invisible_damage_probe(xvc, random.Random(rseed), parallel=bool(i % 2))
            chk.count(("invisible-damage", rseed, i % 2), True)
            if bad and nbad < 2:
                nbad += 1
                chk.fail("oracle", bad[0], {"kind": "invisible-damage", "rseed": rseed, "parallel": bool(i % 2), "scenario": sc, "all": bad[:10]}, name="invisible")
        chk.cov["distribution"]["invisible_damage_probes"] = ninv
    return res
