"""C11 — `xvc pipeline run` always terminates with a verdict for every step.
proof (Props/C11.v over Sched/Model.v) + trace validation of every real run + oracle: the process
exits, every step thread ends only after a terminal state, every step has a terminal state in the
bulletin.  A run that does not exit is reported as a hang only when the extracted model certifies
the state at the end of its trace as deadlocked (no false alarm from a slow machine)."""
import itertools, json
from . import common as C
from . import sched as S

OUTCOMES = ["ok", "fail", "missing", "bigout", "err1k"]


def apply_outcome(sp, i, oc):
    s = sp["steps"][i]
    if oc == "fail":
        s["exit"] = 1
    elif oc == "missing":
        s["deps"].append(["file", "absent_%d.txt" % i])
    elif oc == "thorerr":
        # passes the superficial check, fails in the thorough comparison (finding P14b)
        s["deps"].append(rng_free_choice(i))
    elif oc == "bigout":
        s["out"] = 70000
    elif oc == "err1k":
        s["err"] = 1000
    elif oc == "bigerr":
        s["err"] = 200000
    elif oc == "garble":
        s["garble"] = True


def rng_free_choice(i):
    return [["lines", "absent_%d.txt::1-5" % i], ["regex", "absent_%d.txt:/a.*" % i]][i % 2]


def cases(chk, env):
    rng, tier = chk.rng, chk.tier
    out = list(S.load_corpus("C11"))
    # thorough comparison errors in every position: only on a tree that has the repair of P14b (probe);
    # without it the class is an open finding whose witnesses are in the corpus
    outcomes = OUTCOMES + (["thorerr"] if env.p14b_fixed else [])
    joinable = ["ok", "fail", "missing"] + (["thorerr"] if env.p14b_fixed else [])
    nmax = 3 if tier == "quick" else 4
    for n in range(1, nmax + 1):
        dags = S.all_dags(n)
        if n == 4:
            dags = rng.sample(dags, 150)
        for es in dags:
            allocs = list(itertools.product(outcomes, repeat=n))
            for ocs in (allocs if n == 1 else rng.sample(allocs, 5 if tier == "quick" else 16)):
                sp = S.explicit_spec(n, es, [0] * n, ["D"] * n, rng.choice([1, 2]), [rng.choice([0, 30]) for _ in range(n)],
                                     rng.randrange(1, 1 << 30), "dag%d" % n)
                for i, oc in enumerate(ocs):
                    apply_outcome(sp, i, oc)
                if rng.random() < 0.3:
                    sp["steps"][rng.randrange(n)]["when"] = rng.choice(["A", "N"])
                out.append(sp)
    # a step with several dependencies of which some fail, some succeed, some cannot be checked
    for k in (2, 3):
        for ocs in (itertools.product(joinable, repeat=k) if k == 2 else itertools.product(["ok", "fail", "missing"], repeat=k)):
            for w in ("D", "A"):
                steps = [S.step("d%d" % i, dur=rng.choice([0, 40])) for i in range(k)]
                steps.append(S.step("join", when=w, deps=[("step", "d%d" % i) for i in range(k)]))
                steps.append(S.step("after", deps=[("step", "join")]))
                sp = S.mkspec(steps, pool=rng.choice([1, 2, 3]), jitter=rng.randrange(1, 1 << 30), label="join%d" % k)
                for i, oc in enumerate(ocs):
                    apply_outcome(sp, i, oc)
                out.append(sp)
    # slots come back after failures: pool 1, more steps than slots
    for rep in range(10 if tier == "quick" else 60):
        k = rng.randint(3, 5)
        sp = S.mkspec([S.step("s%d" % i, dur=20) for i in range(k)], pool=1, jitter=rng.randrange(1, 1 << 30), label="pool1")
        for i in range(k):
            apply_outcome(sp, i, rng.choice(["ok", "fail", "missing", "err1k"] + (["thorerr"] if env.p14b_fixed else [])))
        out.append(sp)
    n = 0
    while n < (35 if tier == "quick" else 400):
        sp = S.random_graph_spec(rng, label="random")
        if S.k_thorough_error(sp):
            # keep a few of the open class (they are fast: the thread dies, nothing hangs for long), not most
            if rng.random() < 0.8:
                continue
        for s in sp["steps"]:
            if rng.random() < 0.15:
                s["out"] = 70000
        out.append(sp)
        n += 1
    for k in range(12 if tier == "quick" else 120):
        out.append(S.two_run_spec(rng, label="tworun"))
    # many LINES (more than the 100 000 slots of the output channels), on either stream: the relay must not block the step
    for j, stream in enumerate(("out", "err")):
        w = S.step("w", **{stream: 150000}); w[stream + "lines"] = True
        out.append(S.mkspec([w, S.step("after", deps=[("step", "w")])], pool=2, jitter=j + 1, label="manylines"))
    if tier == "thorough":
        # output volumes on either stream, 10 jitter seeds
        for vol in (1000, 70000, 200000):
            for stream in ("out", "err"):
                for j in range(10):
                    sp = S.mkspec([S.step("w", **{stream: vol}), S.step("after", deps=[("step", "w")])], pool=2, jitter=j + 1, label="volume")
                    out.append(sp)
        for j in range(5):
            out.append(S.mkspec([S.step("g", garble=True), S.step("after", deps=[("step", "g")])], pool=2, jitter=j + 1, label="garble"))
            out.append(S.mkspec([S.step("a", deps=[("file", "somedir")]), S.step("after", deps=[("step", "a")])], dirs=["somedir"], pool=2, jitter=j + 1, label="dir-as-file"))
    return out


def nontrivial(sp, rr, info):
    hard = any(s["exit"] != 0 or s["out"] >= 1000 or s["err"] >= 1000 or s.get("garble") or S.missing_file_dep(sp, s) for s in sp["steps"])
    return bool(S.semantic_edges(sp)) and (hard or sp["pool"] < len(sp["steps"]))


def run(chk, replay=None):
    S.install_findings(chk)
    chk.cov["trusted_base"] = S.TRUSTED
    chk.assumptions += ["step commands terminate (generated commands sleep < 1 s)", "process_pool_size > 0",
                        "a run that has not exited is a hang only if the model certifies its traced state as stuck; bound %d s" % S.HANG_BOUND]
    with S.Env() as env:
        S.table_obligations(chk, env)
        chk.proof()
        S.probe_switches(chk, env)
        specs = ([replay["input"]] if "input" in replay else []) if replay else cases(chk, env)
        stats, rrs, infos, specs = S.drive(chk, env, "C11", specs, nontrivial, max_reports=6)
        chk.cov["distribution"] = stats
        for sp in specs[:2] + specs[-2:]:
            chk.sample(json.dumps(S.strip_spec(sp))[:400])
    chk.cov["rule"] = ("one evaluation = one real `xvc pipeline run`, trace replayed through the extracted model, judged: process exits (a hang needs the model's stuck certificate), every step thread "
                       "ends after a terminal state, every step has a terminal bulletin state. Repair switches P13 / P14b / P16 of the model are decided by probes of the binary under test. Cases: corpus (P12, P13, P13b, P14, P14b witnesses first); all DAGs on <= %d steps x sampled "
                       "outcome assignments from {ok, exit 1, missing dependency file, 70 kB on stdout, 1 kB on stderr; on a tree with the P14b repair also: --lines / --regex on a missing file} x pool 1/2 x always/never on a step; joins of 2-3 dependencies with every mix of "
                       "ok / failed / uncheckable x by_dependencies/always; pool 1 with failing steps; random 4-6-step graphs with file/glob edges. non-trivial = has an edge and a non-ok outcome, a large "
                       "output or fewer slots than steps; distinct by spec" % (3 if chk.tier == "quick" else 4))
    chk.cov["exhaustive"] = False
    return chk
