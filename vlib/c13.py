"""C13 — concurrent step commands never exceed the configured process pool.
proof (Props/C13.v over Sched/Model.v) + trace validation of every real run + journal oracle:
the maximum overlap of the [S, E] intervals the commands journal themselves is a lower bound of
the number of simultaneously live processes, so it never raises a false alarm."""
import itertools, json
from . import common as C
from . import sched as S


def independent(k, pool, dur, jitter, label, exits=None):
    return S.mkspec([S.step("s%d" % i, dur=dur, exit=(exits[i] if exits else 0)) for i in range(k)], pool=pool, jitter=jitter, label=label)


def cases(chk, env):
    rng, tier = chk.rng, chk.tier
    out = list(S.load_corpus("C13"))
    kmax = 6 if tier == "quick" else 8
    for k in range(1, kmax + 1):
        for pool in range(1, k + 1):
            for rep in range(3 if tier == "quick" else 6):
                out.append(independent(k, pool, rng.choice([60, 100, 150]), rng.randrange(1, 1 << 30), "independent"))
    # a failing or a never step must give its slot back / take none
    for k in (3, 4):
        for rep in range(4 if tier == "quick" else 12):
            exits = [rng.choice([0, 1]) for _ in range(k)]
            sp = independent(k, rng.choice([1, 2]), 80, rng.randrange(1, 1 << 30), "independent-failing", exits)
            if rng.random() < 0.5:
                sp["steps"][rng.randrange(k)]["when"] = "N"
            out.append(sp)
    # graphs wider than the pool: root -> k children -> sink, all DAGs on 3 steps with pool 1 and 2
    for k in range(2, 5 if tier == "quick" else 7):
        for pool in range(1, k + 1):
            steps = [S.step("root", dur=40)]
            steps += [S.step("c%d" % i, dur=rng.choice([50, 100]), deps=[("step", "root")]) for i in range(k)]
            steps.append(S.step("sink", deps=[("step", "c%d" % i) for i in range(k)]))
            out.append(S.mkspec(steps, pool=pool, jitter=rng.randrange(1, 1 << 30), label="fork-join"))
    for es in S.all_dags(3):
        has_dependents = {j for _, j in es}
        for pool in (1, 2):
            out.append(S.explicit_spec(3, es, [0, 0, 0], ["D"] * 3, pool, [70 if i in has_dependents else 40 for i in range(3)],
                                       rng.randrange(1, 1 << 30), "dag3"))
    if tier == "thorough":
        for es in rng.sample(S.all_dags(4), 150):
            for pool in (1, 2, 3):
                out.append(S.explicit_spec(4, es, [0] * 4, ["D"] * 4, pool, [50] * 4, rng.randrange(1, 1 << 30), "dag4"))
    # random graphs with file edges (no glob edges on absent outputs: that is C10's finding P16)
    n = 0
    while n < (60 if tier == "quick" else 300):
        sp = S.random_graph_spec(rng, label="random")
        if S.k_glob_absent(sp):
            continue
        for s in sp["steps"]:
            s["when"] = "A" if s["when"] == "N" else s["when"]
        sp["pool"] = rng.choice([1, 1, 2, 3])
        out.append(sp)
        n += 1
    # second runs: some steps are skipped, the others still share the pool
    n = 0
    while n < (20 if tier == "quick" else 80):
        sp = S.two_run_spec(rng, label="tworun")
        if S.k_glob_absent(sp):
            continue
        sp["pool"] = rng.choice([1, 1, 2])
        out.append(sp)
        n += 1
    # the CONFIGURED pool: the size comes from -c, from an XVC_ environment variable, from .xvc/config.local.toml or
    # from .xvc/config.toml (the corpus keeps -c); every source must reach the scheduler with its own value
    for sp in out:
        if not str(sp.get("label", "")).startswith("corpus:"):
            sp["pool_via"] = rng.choice(["cli", "cli", "env", "local", "project"])
    return out


def nontrivial(sp, rr, info):
    started = sum(1 for k, _, _ in rr.journal if k == "S")
    return started > sp["pool"]


def judge_order_pool1(sp, rr):
    """pool 1: the commands run one after another, in an order compatible with the graph."""
    if sp["pool"] != 1:
        return []
    # (an edge that exists only through a glob on a not yet existing output is C10's open finding P16
    #  and is judged there; the generator below avoids such graphs anyway)
    return [(w, None) for w, e in S.oracle_c10(sp, rr) if "started before" in w and not (e and S.glob_only_edge(sp, e))]


def run(chk, replay=None):
    S.install_findings(chk)
    chk.cov["trusted_base"] = S.TRUSTED
    chk.assumptions += ["journal lines are written with O_APPEND single writes; an S line is written after the command's process exists and an E line before it exits, so journal overlap implies real overlap",
                        "process_pool_size > 0"]
    with S.Env() as env:
        S.table_obligations(chk, env)
        chk.proof()
        S.probe_switches(chk, env)
        specs = ([replay["input"]] if "input" in replay else []) if replay else cases(chk, env)
        stats, rrs, infos, specs = S.drive(chk, env, "C13", specs, nontrivial)
        for sp, rr in zip(specs, rrs):
            for what, _ in judge_order_pool1(sp, rr)[:1]:
                sp = sp.get("_origin") or sp
                chk.fail("oracle", "process_pool_size=1: " + what, {"input": S.strip_spec(sp), "journal": rr.journal, "kind": "impl-history"}, name="order")
        reached = sum(1 for sp, rr in zip(specs, rrs) if S.oracle_c13(sp, rr)[0] == sp["pool"])
        stats["runs_where_overlap_reached_pool"] = reached
        chk.cov["distribution"] = stats
        for sp in specs[:2] + specs[-2:]:
            chk.sample(json.dumps(S.strip_spec(sp))[:400])
    chk.cov["rule"] = ("one evaluation = one real `xvc pipeline run` with process_pool_size set by -c, an XVC_ variable, .xvc/config.local.toml or .xvc/config.toml (spec field pool_via), trace replayed through the extracted model (acquire / release lines carry the exact counter values), "
                       "journal judged: max overlap of [S,E] intervals <= pool, and for pool 1 the order is compatible with the graph. Cases: corpus (P11 witness first); k independent steps x pool 1..k "
                       "(k <= %d) x jitter seeds; failing / never steps; root -> k children -> sink with pool 1..k; all DAGs on 3 steps x pool 1,2; random 4-6-step graphs with file edges x pool 1..3. "
                       "non-trivial = more commands started than the pool has slots; distinct by spec" % (6 if chk.tier == "quick" else 8))
    chk.cov["exhaustive"] = False
    return chk
