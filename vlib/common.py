"""Shared machinery of the checks: builds (Coq, extraction, harness, hooked xvc), the proof
audit, evidence writing, known-findings matching and the verdict.  Standard library only."""
import json, os, re, subprocess, sys, time, hashlib, random, shutil, tempfile, glob

ROOT = os.path.dirname(os.path.dirname(os.path.abspath(__file__)))
REPO = os.environ.get("VERIF_REPO", "/repo")
BUILD = os.environ.get("VERIF_BUILD", os.path.join(ROOT, "build"))
BIN = os.path.join(ROOT, "build", "bin")   # extracted model binaries do not depend on /repo
TARGET = os.path.join(BUILD, "target")
COQ = os.path.join(ROOT, "coq")
EVID = os.environ.get("VERIF_EVID", os.path.join(ROOT, "evidence"))
REPLAYS = os.environ.get("VERIF_REPLAYS", os.path.join(ROOT, "replays"))
NPROC = os.cpu_count() or 4

BASE_ENV = dict(os.environ)
BASE_ENV.update({"CARGO_NET_OFFLINE": "true", "RUST_BACKTRACE": "0", "GOPROXY": "off", "PIP_NO_INDEX": "1"})
HOOK_RUSTFLAGS = "--cfg xvc_verif"

FORBIDDEN = r"\b(Admitted|admit|Axiom|Axioms|Parameter|Parameters|Conjecture|Hypothesis|Variable)\b|Unset\s+Guard|bypass_check|type-in-type|impredicative-set|Admit\s+Obligations|native_compute"
# stdlib axioms a proof may depend on; each must be named in DESIGN.md section 4 (currently none is used)
AXIOM_ALLOW = set()


def sh(cmd, timeout=600, env=None, cwd=None, input=None, stderr=subprocess.STDOUT):
    e = dict(BASE_ENV)
    if env:
        e.update(env)
    try:
        p = subprocess.run(cmd, shell=isinstance(cmd, str), cwd=cwd, env=e, input=input,
                           stdout=subprocess.PIPE, stderr=stderr, timeout=timeout, text=True,
                           errors="replace")
        return p.returncode, p.stdout
    except subprocess.TimeoutExpired as ex:
        out = ex.stdout or ""
        if isinstance(out, bytes):
            out = out.decode("utf-8", "replace")
        return 124, out + "\n[timeout after %ss]" % timeout


def log(*a):
    print("[verif]", *a, file=sys.stderr, flush=True)


# ---------------------------------------------------------------------------------------------
# Coq
# ---------------------------------------------------------------------------------------------
def write_coqproject():
    """_CoqProject lists every .v file under coq/theories (so nobody edits it by hand)."""
    files = sorted(os.path.relpath(p, COQ) for p in glob.glob(os.path.join(COQ, "theories", "**", "*.v"), recursive=True))
    txt = ("-Q theories XV\n-arg -w -arg -notation-overridden,-deprecated-hint-without-locality,-deprecated-instance-without-locality\n"
           + "\n".join(files) + "\n")
    proj = os.path.join(COQ, "_CoqProject")
    if not os.path.exists(proj) or open(proj).read() != txt:
        with open(proj, "w") as fh:
            fh.write(txt)


def coq_makefile():
    write_coqproject()
    mk = os.path.join(COQ, "Makefile")
    proj = os.path.join(COQ, "_CoqProject")
    if not os.path.exists(mk) or os.path.getmtime(mk) < os.path.getmtime(proj):
        rc, out = sh("coq_makefile -f _CoqProject -o Makefile", cwd=COQ, timeout=120)
        if rc != 0:
            raise RuntimeError("coq_makefile failed:\n" + out)


def coq_build(vo_targets, timeout=1500):
    """make the given .vo files (paths relative to coq/).  Returns (ok, log).  Serialised by a file
    lock: several checks (or builders) may run at once and share coq/Makefile and .Makefile.d."""
    import fcntl
    os.makedirs(os.path.join(ROOT, "build"), exist_ok=True)
    with open(os.path.join(ROOT, "build", ".coq.lock"), "w") as lk:
        fcntl.flock(lk, fcntl.LOCK_EX)
        coq_makefile()
        rc, out = sh("timeout %d make -j%d %s" % (timeout, NPROC, " ".join(vo_targets)), cwd=COQ, timeout=timeout + 30)
    return rc == 0, out


def strip_comments(src):
    out, depth, i = [], 0, 0
    while i < len(src):
        if src.startswith("(*", i):
            depth += 1; i += 2
        elif src.startswith("*)", i) and depth:
            depth -= 1; i += 2
        else:
            if depth == 0:
                out.append(src[i])
            i += 1
    return "".join(out)


def theorem_names(vfile):
    src = strip_comments(open(vfile).read())
    return re.findall(r"^\s*Theorem\s+([A-Za-z0-9_']+)", src, re.M)


def coq_deps(vfile):
    """transitive XV.* source files a .v file depends on (via coqdep)."""
    rc, out = sh("coqdep -Q theories XV %s" % os.path.relpath(vfile, COQ), cwd=COQ, timeout=60)
    deps = set()
    seen = set()
    todo = [os.path.relpath(vfile, COQ)]
    while todo:
        f = todo.pop()
        if f in seen:
            continue
        seen.add(f)
        rc, out = sh("coqdep -Q theories XV %s" % f, cwd=COQ, timeout=60)
        for m in re.findall(r"(theories/\S+)\.vo\b", out):
            v = m + ".v"
            if v != f and os.path.exists(os.path.join(COQ, v)):
                deps.add(v); todo.append(v)
    return sorted(deps | {os.path.relpath(vfile, COQ)})


def proof_audit(prop, extra_theorem_files=()):
    """Builds Props/<prop>.vo, re-prints the assumptions of every property theorem with a fresh coqc
    run, and greps the cone of the property for forbidden vernacular.  Returns a dict with
    obligations / discharged / problems (list of strings) / assumptions (name -> text)."""
    t0 = time.time()
    pfile = os.path.join(COQ, "theories", "Props", prop + ".v")
    names = theorem_names(pfile)
    for f in extra_theorem_files:
        names += theorem_names(os.path.join(COQ, f))
    res = {"obligations": len(names), "discharged": 0, "problems": [], "assumptions": {}, "theorems": names}
    ok, out = coq_build(["theories/Props/%s.vo" % prop])
    res["build_log_tail"] = out[-3000:]
    if not ok:
        m = re.search(r'File "([^"]+)", line (\d+)', out)
        res["problems"].append("proof build failed: " + (m.group(0) if m else "see log"))
        # theorems stated before the failing line of the Props file still count as discharged only
        # if the failure is inside the Props file itself; otherwise none is
        if m and m.group(1).endswith("Props/%s.v" % prop):
            line = int(m.group(2))
            src = open(pfile).read().split("\n")[:line]
            res["discharged"] = len(re.findall(r"^\s*Theorem\s", strip_comments("\n".join(src)), re.M)) - 1
            res["discharged"] = max(res["discharged"], 0)
        res["failed_at"] = m.group(0) if m else None
        return res
    # forbidden vernacular in the cone (Section variables/hypotheses are allowed: check they are in a Section)
    cone = coq_deps(pfile)
    for f in cone:
        src = strip_comments(open(os.path.join(COQ, f)).read())
        depth = 0
        for ln, line in enumerate(src.split("\n"), 1):
            if re.match(r"\s*(Section|Module)\s", line):
                depth += 1
            if re.match(r"\s*End\s", line):
                depth -= 1
            for m in re.finditer(FORBIDDEN, line):
                w = m.group(0)
                if w in ("Variable", "Hypothesis", "Variables", "Hypotheses") and depth > 0:
                    continue
                res["problems"].append("forbidden '%s' in %s:%d" % (w, f, ln))
    # assumptions, from a fresh coqc run
    d = tempfile.mkdtemp(prefix="xvc-verif-audit-")
    try:
        with open(os.path.join(d, "Audit.v"), "w") as fh:
            fh.write("From XV Require Import Props.%s.\n" % prop)
            for f in extra_theorem_files:
                fh.write("From XV Require Import %s.\n" % f.replace("theories/", "").replace(".v", "").replace("/", "."))
            for n in names:
                fh.write('Goal True. idtac "@@@ %s". Abort.\nPrint Assumptions %s.\n' % (n, n))
        rc, out = sh("coqc -Q %s/theories XV Audit.v" % COQ, cwd=d, timeout=300)
        if rc != 0:
            res["problems"].append("assumption audit failed: " + out[-500:])
        else:
            chunks = re.split(r"@@@ (\S+)\n", out)
            for i in range(1, len(chunks) - 1, 2):
                name, text = chunks[i], chunks[i + 1].strip()
                res["assumptions"][name] = text
                if text.startswith("Closed under the global context"):
                    res["discharged"] += 1
                else:
                    axs = re.findall(r"^([A-Za-z0-9_.']+)\s*:", text, re.M)
                    bad = [a for a in axs if a not in AXIOM_ALLOW]
                    if bad:
                        res["problems"].append("theorem %s depends on %s" % (name, ", ".join(bad)))
                    else:
                        res["discharged"] += 1
            missing = [n for n in names if n not in res["assumptions"]]
            if missing:
                res["problems"].append("no assumption report for " + ", ".join(missing))
    finally:
        shutil.rmtree(d, ignore_errors=True)
    res["wall_s"] = round(time.time() - t0, 1)
    return res


def coqchk(prop, timeout=1200):
    rc, out = sh("timeout %d coqchk -o -silent -Q theories XV XV.Props.%s" % (timeout, prop), cwd=COQ, timeout=timeout + 30)
    return rc == 0, out[-2000:]


# ---------------------------------------------------------------------------------------------
# extracted model binaries, harness, hooked xvc
# ---------------------------------------------------------------------------------------------
def newest_mtime(paths):
    m = 0
    for p in paths:
        if os.path.isdir(p):
            for dp, dn, fn in os.walk(p):
                for f in fn:
                    if f.endswith((".v", ".ml", ".sh")):
                        m = max(m, os.path.getmtime(os.path.join(dp, f)))
        elif os.path.exists(p):
            m = max(m, os.path.getmtime(p))
    return m


def ensure_model(Name, theory_dirs):
    """(re)builds build/bin/<name>model when its sources are newer.  theory_dirs: the theory
    sub-directories whose Model files it extracts (e.g. ['Base','Ecs'])."""
    name = Name.lower()
    binp = os.path.join(BIN, name + "model")
    srcs = [os.path.join(COQ, "theories", d) for d in theory_dirs]
    srcs += [os.path.join(COQ, "extract", f) for f in (Name + "Extract.v", name + "_driver.ml", "common.ml", "build.sh")]
    if os.path.exists(binp) and os.path.getmtime(binp) >= newest_mtime(srcs):
        return binp
    # the .vo files the extraction needs
    ex = open(os.path.join(COQ, "extract", Name + "Extract.v")).read()
    vos = []
    for m in re.finditer(r"From XV Require Import ([A-Za-z0-9_. \t\n]+?)\.\s*$", ex, re.M):
        for mod in m.group(1).split():
            vos.append("theories/" + mod.replace(".", "/") + ".vo")
    ok, out = coq_build(sorted(set(vos)))
    if not ok:
        raise RuntimeError("model build failed (coq):\n" + out[-3000:])
    rc, out = sh([os.path.join(COQ, "extract", "build.sh"), Name], timeout=1800)
    if rc != 0:
        raise RuntimeError("model build failed (extraction/ocaml):\n" + out[-3000:])
    return binp


def cargo_env():
    return {"RUSTFLAGS": HOOK_RUSTFLAGS, "CARGO_TARGET_DIR": TARGET}


def harness_dir():
    """the harness crate is instantiated under BUILD with its path dependencies pointing at REPO
    (normally /repo; a scratch worktree when VERIF_REPO is set)."""
    h = os.path.join(BUILD, "harness")
    os.makedirs(h, exist_ok=True)
    src = os.path.join(h, "src")
    want = os.path.join(ROOT, "harness", "src")
    if os.path.islink(src) and os.readlink(src) != want:
        os.unlink(src)
    if not os.path.exists(src):
        os.symlink(want, src)
    toml = open(os.path.join(ROOT, "harness", "Cargo.toml")).read().replace("/repo/", REPO.rstrip("/") + "/")
    tp = os.path.join(h, "Cargo.toml")
    if not os.path.exists(tp) or open(tp).read() != toml:
        open(tp, "w").write(toml)
    os.makedirs(os.path.join(h, ".cargo"), exist_ok=True)
    open(os.path.join(h, ".cargo", "config.toml"), "w").write("[net]\noffline = true\n")
    shutil.copyfile(os.path.join(REPO, "Cargo.lock"), os.path.join(h, "Cargo.lock"))
    return h


def ensure_harness(bins):
    """cargo build of the harness binaries against /repo's working tree, hooks on."""
    h = harness_dir()
    args = " ".join("--bin " + b for b in bins)
    rc, out = sh("cargo build --offline --ignore-rust-version %s" % args, cwd=h, env=cargo_env(), timeout=3000)
    if rc != 0:
        raise BuildError("harness build failed:\n" + out[-4000:])
    return {b: os.path.join(TARGET, "debug", b) for b in bins}


def ensure_xvc():
    """hook-instrumented xvc binary built from /repo's working tree."""
    rc, out = sh("cargo build --offline --ignore-rust-version -p xvc --bin xvc", cwd=REPO, env=cargo_env(), timeout=3000)
    if rc != 0:
        raise BuildError("xvc build failed:\n" + out[-4000:])
    return os.path.join(TARGET, "debug", "xvc")


class BuildError(Exception):
    pass


def run_lines(binary, lines, timeout=1200, env=None, shards=1):
    """feeds lines to a driver binary (one case per line) and returns the output lines."""
    if shards <= 1 or len(lines) < 4 * shards:
        rc, out = sh([binary], input="\n".join(lines) + "\n", timeout=timeout, env=env, stderr=subprocess.DEVNULL)
        outl = out.split("\n")
        if outl and outl[-1] == "":
            outl.pop()
        return rc, outl
    from concurrent.futures import ThreadPoolExecutor
    chunks = [lines[i::shards] for i in range(shards)]
    with ThreadPoolExecutor(shards) as ex:
        rs = list(ex.map(lambda c: run_lines(binary, c, timeout, env, 1), chunks))
    outl = [None] * len(lines)
    rc = 0
    for i, (r, o) in enumerate(rs):
        rc = rc or r
        for j, l in enumerate(o[:len(chunks[i])]):
            outl[i + j * shards] = l
    return rc, [l if l is not None else "<missing>" for l in outl]


# ---------------------------------------------------------------------------------------------
# findings, verdict, evidence
# ---------------------------------------------------------------------------------------------
def known_findings(prop):
    p = os.path.join(ROOT, "known_findings.json")
    if not os.path.exists(p):
        return []
    data = json.load(open(p))
    return [f for f in data.get("findings", []) if f.get("property") == prop and f.get("status") == "open"]


class Failure:
    def __init__(self, kind, what, replay, klass=None, has_input=True):
        """kind: 'oracle' (the property fails on a concrete implementation run),
                 'correspondence' (model and implementation differ), 'proof' (an obligation no longer checks).
           klass: class label computed from the shrunk input, matched against known_findings.json."""
        self.kind, self.what, self.replay, self.klass, self.has_input = kind, what, replay, klass, has_input


class Check:
    def __init__(self, prop, tier, seed):
        self.prop, self.tier, self.seed = prop, tier, seed
        self.t0 = time.time()
        self.failures = []
        self.cov = {"evaluations": 0, "distinct_nontrivial": 0, "rule": "", "samples": [],
                    "obligations": 0, "discharged": 0, "checker_cmd": "", "trusted_base": [],
                    "traces_validated_against_impl": 0}
        self.assumptions = []
        self.rng = random.Random(seed)
        self._distinct = set()
        os.makedirs(EVID, exist_ok=True)
        os.makedirs(REPLAYS, exist_ok=True)

    # --- proof part
    def proof(self, extra_theorem_files=()):
        a = proof_audit(self.prop, extra_theorem_files)
        self.cov["obligations"] = a["obligations"]
        self.cov["discharged"] = a["discharged"]
        self.cov["theorems"] = a["theorems"]
        self.cov["assumption_report"] = {k: v[:200] for k, v in a["assumptions"].items()}
        self.cov["checker_cmd"] = ("make -C coq theories/Props/%s.vo (coqc 8.16.1, full .vo build) + fresh coqc run of "
                                   "Print Assumptions on every Theorem + grep for Admitted/admit/Axiom/Parameter/..." % self.prop)
        self.audit = a
        for p in a["problems"]:
            self.failures.append(Failure("proof", p, None, has_input=False))
        if self.tier == "thorough" and not a["problems"]:
            ok, out = coqchk(self.prop)
            self.cov["coqchk"] = out[-600:]
            if not ok:
                self.failures.append(Failure("proof", "coqchk failed: " + out[-300:], None, has_input=False))
        return a

    # --- counting
    def count(self, case_key, nontrivial):
        self.cov["evaluations"] += 1
        if nontrivial:
            h = hashlib.sha1(repr(case_key).encode()).digest()[:8]
            if h not in self._distinct:
                self._distinct.add(h)
                self.cov["distinct_nontrivial"] += 1

    def sample(self, s, limit=6):
        if len(self.cov["samples"]) < limit:
            self.cov["samples"].append(s)

    def write_replay(self, name, obj):
        p = os.path.join(REPLAYS, "%s_%s_%d.json" % (self.prop, name, self.seed))
        obj = dict(obj)
        obj.setdefault("property", self.prop)
        obj.setdefault("seed", self.seed)
        with open(p, "w") as fh:
            json.dump(obj, fh, indent=1)
        return p

    def fail(self, kind, what, replay_obj, name="fail", klass=None, has_input=True):
        p = self.write_replay(name + str(len(self.failures)), dict(replay_obj, kind=kind, what=what))
        self.failures.append(Failure(kind, what, p, klass, has_input))

    # --- verdict
    def finish(self, extra=None):
        known = known_findings(self.prop)
        violations = 0
        printed_known = set()
        # every open finding reproduced on this run prints its line
        for f in self.failures:
            kf = next((k for k in known if f.klass and k.get("class") == f.klass), None)
            if kf is not None:
                if kf["id"] not in printed_known:
                    printed_known.add(kf["id"])
                    print("KNOWN-FINDING: property=%s %s" % (self.prop, kf.get("what", kf["id"])))
                continue
            violations += 1
            replay = f.replay
            if replay is None:
                replay = self.write_replay("obligation%d" % violations,
                                           {"kind": "broken-obligation" if f.kind == "proof" else f.kind, "what": f.what})
            tail = "" if f.has_input else " no-failing-input-found"
            print("VIOLATION property=%s replay=%s%s" % (self.prop, replay, tail))
            log(f.kind, f.what)
        ev = {"property_id": self.prop, "tier": self.tier, "seed": self.seed, "level": "proof",
              "coverage": self.cov, "assumptions": self.assumptions,
              "wall_s": round(time.time() - self.t0, 1), "violations": violations,
              "known_findings_reproduced": sorted(printed_known)}
        if extra:
            ev["coverage"].update(extra)
        with open(os.path.join(EVID, self.prop + ".json"), "w") as fh:
            json.dump(ev, fh, indent=1, default=str)
        log("%s %s: %d evaluations, %d distinct non-trivial, %d/%d obligations, %d violation(s), %.1fs" % (
            self.prop, self.tier, self.cov["evaluations"], self.cov["distinct_nontrivial"],
            self.cov["discharged"], self.cov["obligations"], violations, time.time() - self.t0))
        return 1 if violations else 0


def shrink_list(items, still_fails, max_rounds=200):
    """greedy delta debugging on a list: drop elements while still_fails(list) holds."""
    cur = list(items)
    rounds = 0
    changed = True
    while changed and rounds < max_rounds:
        changed = False
        i = 0
        while i < len(cur) and rounds < max_rounds:
            cand = cur[:i] + cur[i + 1:]
            rounds += 1
            if cand and still_fails(cand):
                cur = cand; changed = True
            else:
                i += 1
    return cur


def scratch_dir(prefix):
    base = os.environ.get("VERIF_TMP", tempfile.gettempdir())
    return tempfile.mkdtemp(prefix="xvc-verif-%s-" % prefix, dir=base)


def rm_rf(p):
    if not p or not os.path.exists(p):
        return
    for dp, dn, fn in os.walk(p):
        try:
            os.chmod(dp, 0o755)
        except OSError:
            pass
    shutil.rmtree(p, ignore_errors=True)
