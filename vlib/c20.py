"""C20 — configuration sources override each other in the documented order.

  gen     gen/config_tables.py regenerates Gen/{ConfigOrder,CliSwitches,CachePrefix,DefaultKeys}.v from /repo
  proof   Props/C20.v (22 theorems) against the regenerated tables
  corr    confmodel (extracted Config/Model.v + the regenerated tables) vs confdrv (the real XvcConfig::new):
          exhaustive over the subsets of sources defining one key of each type x all flag combinations, random
          worlds over all default keys; `cli` level: the model's get_xvc_config_params + XvcRootInner::new vs
          the real xvc binary (`xvc <switches> -c .. file track`), observing the cache prefix directory and the
          kind of link the workspace file became
  oracle  written from the property text only (seven sources in the documented order, switches remove exactly
          their source, declared types are kept, the effective algorithm names the cache prefix); judges every
          real run; independent of the model
Line formats: coq/extract/conf_driver.ml / harness/src/bin/confdrv.rs."""
import os, sys, re, json, struct, hashlib, importlib.util, subprocess, threading
from concurrent.futures import ThreadPoolExecutor
from . import common as C
from .xvc import XvcRepo

TRUSTED = [
    "Coq 8.16.1 kernel, coqc; vm_compute for finite computations on the regenerated tables and for witnesses; no native_compute",
    "axioms: none (Print Assumptions: Closed under the global context for all theorems of Props/C20.v)",
    "extraction: ExtrOcamlBasic only; ocamlfind ocamlopt 4.13.1; coq/extract/common.ml + conf_driver.ml (parsing/printing)",
    "translators gen/config_tables.py (regular expressions over config/src/lib.rs XvcConfig::new, lib/src/cli/mod.rs get_xvc_config_params, core/src/types/xvcroot.rs XvcRootInner::new, core/src/types/hashalgorithm.rs; default keys by RUNNING default_project_config through confdrv); every table is also covered by the correspondence runs",
    "correspondence: harness/src/bin/confdrv.rs (calls the real XvcConfig::new / typed getters / HashAlgorithm::try_from_conf), the xvc binary built from /repo, vlib/c20.py generators, canonicaliser (float lexeme -> IEEE bits by Python float()) and oracle",
    "modelled, not verified: config/src/lib.rs {new, update_from_hash_map, env_map, parse_to_value, parse_key_value_vector, get_*} as Config/Model.v; the TOML parser is abstracted (a file is its flattened typed key/value list, or nothing when missing / a directory / not TOML); <i64 as FromStr> and <f64 as FromStr> are transliterated (float VALUE not modelled: lexeme kept); Rust trim for ASCII white space only; HashMap iteration order irrelevant (keys of one map are distinct)",
    "environment assumptions: Linux (directories-next gives ONE path for the system and the user configuration: P19); no two XVC* environment variables map to one key; environment variable names without newline; ASCII case data",
]

ORDER = ["default", "system", "global", "project", "local", "environment", "commandline"]   # labels, lowest priority first
# documented in the configuration template xvc init writes ("Blake3 files are in .xvc/b3/, while sha2 files are in .xvc/s2/ etc.")
PREFIX = {"blake3": "b3", "blake2": "b2", "sha2": "s2", "sha3": "s3", "asis": "a0",
          "b3": "b3", "b2": "b2", "s2": "s2", "s3": "s3", "a0": "a0"}
# "It may take blake3, blake2, sha2 or sha3 as values" (same template): the names the oracle accepts at the command level
# (asis is the algorithm of metadata digests; `track` panics with it on contents shorter than 32 bytes whatever the configuration)
DOC_ALGS = {"blake3": "b3", "blake2": "b2", "sha2": "s2", "sha3": "s3"}
ALG_KEY, METHOD_KEY = "cache.algorithm", "file.recheck.method"
DOC_DEFAULTS = {ALG_KEY: "blake3", METHOD_KEY: "copy"}      # xvc init's template
METHODS = ("copy", "hardlink", "symlink")
SWITCHES = ["--no-system-config", "--no-user-config", "--no-project-config", "--no-local-config", "--no-env-config"]
API_TIE = "confmodel (extracted Config/Model.v + Gen tables) vs confdrv (real XvcConfig::new)"
CLI_TIE = "confmodel `cli` (get_xvc_config_params + XvcRootInner::new + XvcConfig::new) vs the xvc binary (`file track`: cache prefix directory, recheck method)"


# ---- encoding ------------------------------------------------------------------------------------------
def hx(s):
    return s.encode("utf-8").hex()


def vtok(v):
    t, x = v
    if t == "b":
        return "b1" if x else "b0"
    if t == "i":
        return "i%d" % x
    if t == "f":
        return "f" + hx(x)
    return "s" + hx(x)


def fspec(f):
    if f is None:
        return "-"
    if f in ("!", "/"):
        return f
    return "@" + ",".join("%s:%s" % (hx(k), vtok(tuple(v))) for k, v in f)


def api_fields(c):
    return "D=%s S=%s U=%s P=%s L=%s E=@%s C=@%s Q=@%s" % (
        fspec(c["D"]), fspec(c["S"]), fspec(c["U"]), fspec(c["P"]), fspec(c["L"]),
        ",".join("%s:%s" % (hx(n), hx(v)) for n, v in c["E"]), ",".join(hx(s) for s in c["C"]),
        ",".join(hx(k) for k in c["Q"]))


def api_line(c, kind="build"):
    return "%s F=%s %s" % (kind, c["F"], api_fields(c))


def fbits(lexeme):
    try:
        x = float(lexeme)
    except ValueError:
        return "F?" + lexeme
    return "Fnan" if x != x else "F%016x" % struct.unpack(">Q", struct.pack(">d", x))[0]


def canon_model(out):
    """the model prints a float as its lexeme; confdrv prints the IEEE bits"""
    if not out.startswith("ok "):
        return out
    parts = out[3:].split(" ; ")
    ents = []
    for e in parts[0].split(","):
        if e:
            k, v, s = e.split(":")
            if v[0] == "f":
                v = fbits(bytes.fromhex(v[1:]).decode("utf-8", "replace"))
            ents.append("%s:%s:%s" % (k, v, s))
    return "ok " + " ; ".join([",".join(ents)] + parts[1:])


def parse_out(out):
    if not out.startswith("ok "):
        return None
    parts = out[3:].split(" ; ")
    ents, gets = {}, {}
    for e in parts[0].split(","):
        if e:
            k, v, s = e.split(":")
            ents[bytes.fromhex(k).decode("utf-8", "replace")] = (v, s)
    for g in (parts[1].split(",") if len(parts) > 1 else []):
        if g:
            k, code = g.split(":")
            gets[bytes.fromhex(k).decode("utf-8", "replace")] = code
    alg = parts[2][4:] if len(parts) > 2 and parts[2].startswith("alg=") else None
    return {"entries": ents, "getters": gets, "alg": alg}


# ---- the class predicates of the known findings (twins of Config/Proofs.v lookalike / known_alias / the P18 class) ----
def is_i64(s):
    return bool(re.fullmatch(r"[+-]?[0-9]+", s)) and -2 ** 63 <= int(s) <= 2 ** 63 - 1


def is_float_lexeme(s):
    return bool(re.fullmatch(r"[+-]?(([0-9]+\.?[0-9]*|\.[0-9]+)([eE][+-]?[0-9]+)?|[iI][nN][fF]|[iI][nN][fF][iI][nN][iI][tT][yY]|[nN][aA][nN])", s))


def lookalike(s):
    return s in ("true", "false") or is_i64(s) or is_float_lexeme(s)


# ---- the oracle: the property text, nothing else ---------------------------------------------------------
def env_map_doc(E):
    """documented form XVC_<key>=<value>"""
    m = {}
    for n, v in E:
        if n.startswith("XVC_") and len(n) > 4:
            m[n[4:]] = v
    return m


def cli_map_doc(Cv):
    """documented form key=value (first '='), white space around both ignored; a later -c overrides an earlier one"""
    m = {}
    for s in Cv:
        if "=" not in s:
            return None
        k, v = s.split("=", 1)
        m[k.strip(" \t\n\r\x0b\x0c")] = v.strip(" \t\n\r\x0b\x0c")
    return m


def as_declared(raw, t):
    """the typed value a string stands for, given the declared type of the key; None = the string is not a
    canonical rendering of that type (the property says nothing)"""
    if t == "s":
        return ("s", raw)
    if t == "b":
        return ("b", raw == "true") if raw in ("true", "false") else None
    if t == "i":
        return ("i", int(raw)) if re.fullmatch(r"-?(0|[1-9][0-9]*)", raw) and raw != "-0" and -2 ** 63 <= int(raw) <= 2 ** 63 - 1 else None
    return None


def file_map(f):
    return {k: tuple(v) for k, v in f} if isinstance(f, list) else None


def sources_api(c):
    """[(label, enabled, {key: ('typed', v) | ('raw', string)} | None)] lowest priority first"""
    F = c["F"]

    def typed(f):
        m = file_map(f)
        return None if m is None else {k: ("typed", v) for k, v in m.items()}
    cm = cli_map_doc(c["C"])
    return [("default", True, typed(c["D"])),
            ("system", F[0] == "1", typed(c["S"])),
            ("global", F[1] == "1", typed(c["U"])),
            ("project", F[2] == "1", typed(c["P"])),
            ("local", F[3] == "1", typed(c["L"])),
            ("environment", F[4] == "1", {k: ("raw", v) for k, v in env_map_doc(c["E"]).items()}),
            ("commandline", F[5] == "1", None if cm is None else {k: ("raw", v) for k, v in cm.items()})]


def judge_sources(srcs, declared, obs, queries):
    """srcs as sources_api returns; declared: key -> type letter; obs: parse_out() of the observation.
    Returns a list of failures {aspect, key, what, ...} (empty = the property holds on this run)."""
    bad = []
    keys = set(queries)
    for _, _, m in srcs:
        if m:
            keys |= set(m)
    eff = {}
    for k in sorted(keys):
        win = None
        for label, en, m in reversed(srcs):
            if en and m is not None and k in m:
                win = (label, m[k]); break
        o = obs["entries"].get(k)
        if win is None:
            if o is not None:
                bad.append({"aspect": "precedence", "key": k, "what": "key %s is defined by no enabled source but is bound to %s from %s" % (k, o[0], o[1])})
            continue
        label, (how, val) = win
        if o is None:
            bad.append({"aspect": "precedence", "key": k, "what": "key %s is defined by source %s but is not bound" % (k, label)})
            continue
        if o[1] != label:
            bad.append({"aspect": "precedence", "key": k, "expected_source": label, "observed_source": o[1],
                        "what": "key %s: the highest-priority enabled source defining it is %s, the effective value comes from %s" % (k, label, o[1])})
            continue
        exp = val if how == "typed" else (as_declared(val, declared[k]) if k in declared else None)
        if exp is None:
            continue
        eff[k] = exp
        et = vtok(exp) if exp[0] != "f" else fbits(exp[1])
        if o[0] != et:
            bad.append({"aspect": "type" if o[0][0].lower() != et[0].lower() else "value", "key": k, "source": label, "raw": val if how == "raw" else None,
                        "expected": et, "observed": o[0],
                        "what": "key %s (declared %s) given as %r by %s: effective value is %s, expected %s" % (
                            k, declared.get(k, "?"), val, label, o[0], et)})
            continue
        g = obs["getters"].get(k)
        if g is not None:
            want = "".join("O" if t == exp[0] else "M" for t in "sbif")
            if g != want:
                bad.append({"aspect": "getter", "key": k, "what": "typed getters of %s answer %s, expected %s" % (k, g, want)})
    a = eff.get(ALG_KEY)
    if a is not None and a[0] == "s" and a[1] in PREFIX and obs.get("alg") is not None and obs["alg"] != PREFIX[a[1]]:
        bad.append({"aspect": "alg", "key": ALG_KEY, "what": "effective cache.algorithm is %s but the cache prefix is %s" % (a[1], obs["alg"])})
    return bad


def decl_types(c):
    m = file_map(c["D"])
    return {k: v[0] for k, v in (m or {}).items()}


def oracle_api(c, out):
    """None = the property says nothing about this input (malformed defaults / -c without '=')"""
    if not isinstance(c["D"], list):
        return None
    if c["F"][5] == "1" and cli_map_doc(c["C"]) is None:
        return None
    obs = parse_out(out)
    if obs is None:
        return [{"aspect": "panic", "key": None, "what": "XvcConfig::new answers %r on a well-formed input" % out[:60]}]
    return judge_sources(sources_api(c), decl_types(c), obs, c["Q"])


def klass_api(c, f):
    """class label of a failure on the SHRUNK api-level input"""
    if f["aspect"] == "type" and f.get("raw") is not None and f.get("source") in ("environment", "commandline") \
            and decl_types(c).get(f["key"]) == "s" and lookalike(f["raw"]):
        return "lookalike-string"
    if f["aspect"] == "value" and f.get("source") == "commandline" and f.get("raw") is not None and "=" in f["raw"] \
            and f["observed"] == vtok(("s", f["raw"].split("=")[0].strip())):
        return "cli-value-after-second-equals-dropped"
    return None


# ---- runners ---------------------------------------------------------------------------------------------
def run_model(model, lines, shards=8):
    rc, out = C.run_lines(model, lines, shards=shards if len(lines) > 2000 else 1)
    return rc, out


def run_confdrv(confdrv, lines, shards=8):
    """each shard has its own scratch directory (XDG_CONFIG_HOME, project and local files live there)"""
    shards = max(1, min(shards, len(lines) // 500 + 1))
    chunks = [lines[i::shards] for i in range(shards)]

    def one(chunk):
        d = C.scratch_dir("c20")
        try:
            os.makedirs(os.path.join(d, "cfg"))
            env = {"HOME": d, "XDG_CONFIG_HOME": os.path.join(d, "cfg")}
            rc, out = C.sh([confdrv, d], input="\n".join(chunk) + "\n", timeout=1200, env=env, stderr=subprocess.DEVNULL)
            o = out.split("\n")
            if o and o[-1] == "":
                o.pop()
            return rc, o
        finally:
            C.rm_rf(d)
    with ThreadPoolExecutor(shards) as ex:
        rs = list(ex.map(one, chunks))
    outl, rc = ["<missing>"] * len(lines), 0
    for i, (r, o) in enumerate(rs):
        rc = rc or r
        for j, l in enumerate(o[:len(chunks[i])]):
            outl[i + j * shards] = l
    return rc, outl


def toml_text(f):
    def s(x):
        return '"' + "".join("\\u%04X" % ord(ch) if ord(ch) < 0x20 or ch in '"\\' or ord(ch) == 0x7f else ch for ch in x) + '"'
    out = []
    for k, v in f:
        t, x = tuple(v)
        out.append("%s = %s" % (k, ("true" if x else "false") if t == "b" else str(x) if t == "i" else x if t == "f" else s(x)))
    return "\n".join(out) + "\n"


class CliWorker:
    """one scratch repository, reused until a command fails"""

    def __init__(self, xvc):
        self.xvc, self.repo, self.n = xvc, None, 0

    def fresh(self):
        if self.repo:
            self.repo.cleanup()
        self.repo = None
        for attempt in range(3):
            try:
                self.repo = XvcRepo(self.xvc, prefix="c20cli", git=True)
                break
            except RuntimeError:
                if attempt == 2:
                    raise
        self.n = 0
        self.prev_name = None

    def close(self):
        if self.repo:
            self.repo.cleanup(); self.repo = None

    def place(self, path, f):
        if os.path.isdir(path):
            C.rm_rf(path)
        elif os.path.lexists(path):
            os.unlink(path)
        if f is None:
            return
        if f == "/":
            os.makedirs(path)
        else:
            with open(path, "w") as fh:
                fh.write("this is = = not [toml\n" if f == "!" else toml_text(f))

    def cache_files(self):
        r, out = self.repo, set()
        for p in sorted(set(PREFIX.values())):
            for dp, dn, fn in os.walk(r.path(".xvc", p)):
                for f in fn:
                    out.add(os.path.relpath(os.path.join(dp, f), r.path(".xvc")))
        return out

    def run(self, c):
        o = self.run1(c)
        if o.get("timeout"):
            o = self.run1(c)            # a loaded machine: once more in a fresh repository
        return o

    def run1(self, c):
        if self.repo is None or self.n >= 40:
            self.fresh()
        r = self.repo
        self.n += 1
        self.place(os.path.join(r.env["XDG_CONFIG_HOME"], "xvc"), c["xdg"])
        self.place(r.path(".xvc", "config.toml"), c["P"])
        self.place(r.path(".xvc", "config.local.toml"), c["L"])
        name = "d%03d.bin" % self.n
        data = b"\x00C20 " + hashlib.sha1(json.dumps(c, sort_keys=True).encode()).digest() + bytes([self.n])
        # every third command tracks a path again that an earlier command of this repository tracked (under whatever
        # configuration was effective then) with new content: the EFFECTIVE algorithm decides, not the recorded one
        prev = getattr(self, "prev_name", None)
        if prev and self.n % 3 == 0:
            name = prev
            if os.path.lexists(r.path(name)):
                os.unlink(r.path(name))
        r.write(name, data)
        self.prev_name = name
        before = self.cache_files()
        args = ["--skip-git"] + [s for s, b in zip(SWITCHES, c["W"]) if b == "1"]
        for s in c["C"]:
            args += ["-c", s]
        res = r.xvc(*(args + ["file", "track", name]), env=dict(c["E"]))
        if res.timed_out:
            self.fresh()
            return {"failed": True, "timeout": True, "prefixes": [], "kind": "missing"}
        new = sorted(self.cache_files() - before)
        p = r.path(name)
        if os.path.islink(p):
            kind = "symlink"
        elif not os.path.exists(p):
            kind = "missing"
        else:
            kind = "hardlink" if os.stat(p).st_nlink > 1 else "copy"
        obs = {"failed": bool(res.failed), "prefixes": sorted(set(x.split(os.sep)[0] for x in new)), "kind": kind}
        # the address under the prefix must be the digest of the bytes with THAT algorithm (hashlib where it has it)
        for x in new:
            parts = x.split(os.sep)
            h = {"s2": hashlib.sha256, "s3": hashlib.sha3_256, "b2": hashlib.blake2s}.get(parts[0])
            if h is not None and len(parts) >= 4:
                obs["digest_ok"] = "".join(parts[1:4]) == h(data).hexdigest()
        if res.failed:
            obs["err"] = (res.err or res.out)[-160:]
            self.fresh()
            self.prev_name = None
        return obs


def run_cli(xvc, cases, threads=8):
    if not cases:
        return []
    threads = max(1, min(threads, len(cases)))
    chunks = [cases[i::threads] for i in range(threads)]

    def one(chunk):
        w = CliWorker(xvc)
        try:
            return [w.run(c) for c in chunk]
        finally:
            w.close()
    with ThreadPoolExecutor(threads) as ex:
        rs = list(ex.map(one, chunks))
    out = [None] * len(cases)
    for i, o in enumerate(rs):
        for j, x in enumerate(o):
            out[i + j * threads] = x
    return out


def cli_model_line(c, defaults):
    m = {"F": "000000", "D": defaults, "S": c["xdg"], "U": c["xdg"], "P": c["P"], "L": c["L"], "E": c["E"],
         "C": list(c["C"]) + ["core.verbosity = quiet", "core.quiet = false"], "Q": [ALG_KEY, METHOD_KEY]}
    return "cli W=%s %s" % (c["W"], api_fields(m))


def cli_expect_from_model(out):
    """what the real command must do according to the model's configuration"""
    obs = parse_out(canon_model(out))
    if obs is None:
        return {"failed": True}
    alg = obs["alg"]
    meth = obs["entries"].get(METHOD_KEY)
    mname = bytes.fromhex(meth[0][1:]).decode() if meth and meth[0][0] == "s" else None
    if alg in (None, "err") or mname not in METHODS:
        return {"failed": True}
    if alg == "a0":
        return None
    return {"failed": False, "prefixes": [alg], "kind": mname}


def cli_sources(c, W=None):
    W = W or c["W"]

    def typed(f):
        m = file_map(f)
        return None if m is None else {k: ("typed", v) for k, v in m.items()}
    cm = cli_map_doc(c["C"])
    return [("default", True, {k: ("typed", ("s", v)) for k, v in DOC_DEFAULTS.items()}),
            ("system", W[0] == "0", None),          # there is no system-wide file in the scratch world
            ("global", W[1] == "0", typed(c["xdg"])),  # $XDG_CONFIG_HOME/xvc is the USER's configuration
            ("project", W[2] == "0", typed(c["P"])),
            ("local", W[3] == "0", typed(c["L"])),
            ("environment", W[4] == "0", {k: ("raw", v) for k, v in env_map_doc(c["E"]).items()}),
            ("commandline", True, None if cm is None else {k: ("raw", v) for k, v in cm.items()})]


def cli_expect_oracle(c, W=None, names=None):
    """(expected observation, None) from the property text; (None, reason) when the property says nothing"""
    srcs = cli_sources(c, W)
    if srcs[-1][2] is None:
        return None, "-c without '='"
    eff = {}
    for k in (ALG_KEY, METHOD_KEY):
        for label, en, m in reversed(srcs):
            if en and m is not None and k in m:
                how, v = m[k]
                eff[k] = (label, v if how == "typed" else ("s", v)); break
    a, me = eff[ALG_KEY][1], eff[METHOD_KEY][1]
    names = names or DOC_ALGS
    if a[0] != "s" or a[1] not in names or me[0] != "s" or me[1] not in METHODS:
        return None, "the effective value is not a documented algorithm / method name"
    return {"failed": False, "prefixes": [names[a[1]]], "kind": me[1], "eff": {k: [v[0], v[1][1]] for k, v in eff.items()}}, None


def same_obs(exp, obs):
    if exp["failed"] or obs["failed"]:
        return exp["failed"] == obs["failed"]
    return exp["prefixes"] == obs["prefixes"] and exp["kind"] == obs["kind"] and obs.get("digest_ok", True)


def klass_cli(c, obs):
    """class label of an oracle failure on the SHRUNK cli-level input: the observation is exactly what
    the property predicts when the switches of the class are taken away"""
    W = c["W"]
    p18 = W[2] == "1" or W[3] == "1"
    alias = W[1] == "1" and W[0] == "0" and isinstance(c["xdg"], list) and bool(c["xdg"])

    def explains(W2):
        e2, _ = cli_expect_oracle(c, W2, names=PREFIX)     # every name FromStr accepts explains an observation
        return e2 is not None and same_obs(e2, obs)
    if p18 and explains(W[:2] + "00" + W[4]):
        return "noop-switch-project-local"
    if alias and explains(W[0] + "0" + W[2:]):
        return "system-user-alias"
    if p18 and alias and explains(W[0] + "000" + W[4]):
        return "noop-switch-project-local"       # both at once; shrinking separates them
    return None


# ---- generators --------------------------------------------------------------------------------------------
TYPED_KEYS = [(ALG_KEY, "s", ["blake3", "blake2", "blake2", "sha2", "sha3", "asis", "s3"]),
              ("git.use_git", "b", [True, False, False, True, False, True, False]),
              ("pipeline.process_pool_size", "i", [4, 1, 1, 2, 3, 5, 6])]
BYSTANDER = ("file.list.sort", ("s", "name-desc"))


def render(v):
    t, x = v
    return ("true" if x else "false") if t == "b" else str(x) if t == "i" else x


def exhaustive_api(split_sys_user):
    """one key of each type x every subset of the sources defining it x every combination of the six flags.
    split_sys_user=False: system and user are one file (what the platform can realise): 2^6 subsets;
    True: the remaining subsets, where exactly one of system / user defines the key (model + oracle only)."""
    for key, t, vals in TYPED_KEYS:
        for sub in range(128):
            d, s, u, p, l, e, cl = [(sub >> i) & 1 for i in range(7)]
            if (s != u) != split_sys_user:
                continue
            if split_sys_user:
                vals2 = list(vals); vals2[2] = vals[5]      # distinct values for system and user
            else:
                vals2 = vals
            f = lambda on, i: [(key, (t, vals2[i]))] if on else None
            base = {"D": [BYSTANDER] + ([(key, (t, vals2[0]))] if d else []),
                    "S": f(s, 1), "U": f(u, 2), "P": f(p, 3), "L": f(l, 4),
                    "E": [("XVC_" + key, render((t, vals2[5])))] if e else [],
                    "C": ["%s=%s" % (key, render((t, vals2[6])))] if cl else [], "Q": [key, BYSTANDER[0]]}
            for fl in range(64):
                c = dict(base); c["F"] = format(fl, "06b"); c["level"] = "api"
                yield c


WEIRD = ["1.5", "1e5", ".5", "5.", "inf", "-nan", "1e", "e5", "+", "-", "", " 12 ", "0x10", "1_000", "TRUE", "True", "+7", "-0",
         "007", "9223372036854775807", "9223372036854775808", "-9223372036854775808", "-9223372036854775809", "1e400",
         "infinity", "Infinity", "NaN", "iNf", "1.e5", ".e5", "1.5.5", "1e+5", "1E-5", "+.5e1", "--1", "1e5x", "nano", "in",
         "true ", "false", "123", "a b", "x=y", "name-desc", "{{name}} {{asz}}", "/usr/bin/git", "0", "-1"]
NOVEL = ["x.y", "novel", "core.extra"]
EXOTIC_ENV = ["XVC", "XVC_", "XVCzz", "XVC__u", "xvc_cache.algorithm", "AXVC_q", "XVC_ q"]


def rand_value(rng, t):
    if t == "b":
        return ("b", rng.random() < 0.5)
    if t == "i":
        return ("i", rng.choice([0, 1, 4, 16, -1, 2 ** 31, 2 ** 63 - 1, -2 ** 63, rng.randrange(-1000, 1000)]))
    if t == "f":
        return ("f", rng.choice(["1.5", "-0.25", "1e5", "6.02e23", "inf", "-inf", "nan", "0.0"]))
    return ("s", rng.choice(["blake3", "blake2", "sha2", "sha3", "asis", "copy", "hardlink", "symlink", "name-desc", "git", "auto",
                             "default", "a b", "", "x", "p.yaml", "{{name}}"]))


def random_api(rng, dkeys):
    """dkeys: [(key, typed value)] of default_project_config(true)"""
    decl = {k: v[0] for k, v in dkeys}
    pool = [k for k, _ in dkeys] + NOVEL

    def rfile(p_missing=0.25):
        x = rng.random()
        if x < p_missing:
            return rng.choice([None, None, "!", "/"])
        ks = rng.sample(pool, rng.randint(0, 5))
        out = []
        for k in ks:
            t = decl.get(k, rng.choice("sbi"))
            if rng.random() < 0.1:
                t = rng.choice("sbif")
            out.append((k, rand_value(rng, t)))
        return out
    su = rfile()
    E, used = [], set()
    for k in rng.sample(pool, rng.randint(0, 4)):
        t = decl.get(k, "s")
        raw = rng.choice(WEIRD) if rng.random() < 0.25 else render(rand_value(rng, t))
        if "\n" in raw:
            continue
        E.append(("XVC_" + k, raw)); used.add(k)
    if rng.random() < 0.3:
        E.append((rng.choice(EXOTIC_ENV), rng.choice(["1", "v", "true"])))
    Cv = []
    for k in rng.sample(pool, rng.randint(0, 4)):
        t = decl.get(k, "s")
        raw = rng.choice(WEIRD) if rng.random() < 0.25 else render(rand_value(rng, t))
        pad = rng.choice(["", "", " ", "\t"])
        Cv.append("%s%s%s=%s%s" % (pad, k, pad, pad, raw))
    if rng.random() < 0.04:
        Cv.insert(rng.randint(0, len(Cv)), rng.choice(["novalue", "", "cache.algorithm"]))
    if rng.random() < 0.1 and Cv:
        Cv.append(Cv[0].split("=")[0] + "=" + render(rand_value(rng, decl.get(Cv[0].split("=")[0].strip(), "s"))))   # later -c overrides
    D = list(dkeys) if rng.random() < 0.9 else rng.choice(["!", [], dkeys[:5]])
    return {"level": "api", "F": "".join(rng.choice("01") if rng.random() < 0.4 else "1" for _ in range(6)),
            "D": D, "S": su, "U": su, "P": rfile(0.15), "L": rfile(0.3), "E": E, "C": Cv,
            "Q": rng.sample(pool, 3) + [ALG_KEY]}


# (algorithm, method) pairs are pairwise distinct and differ from the defaults (blake3, copy)
CLI_VALS = {"xdg": ("blake2", "symlink"), "P": ("sha2", "hardlink"), "L": ("sha3", "symlink"), "E": ("blake2", "hardlink"), "C": ("sha3", "hardlink")}


def cli_case(W, subset):
    """subset: which of xdg, P, L, E, C define the two keys"""
    c = {"level": "cli", "W": W, "xdg": None, "P": [], "L": [], "E": [], "C": []}
    for name in subset:
        a, m = CLI_VALS[name]
        if name in ("xdg", "P", "L"):
            c[name] = [(ALG_KEY, ("s", a)), (METHOD_KEY, ("s", m))]
        elif name == "E":
            c["E"] = [("XVC_" + ALG_KEY, a), ("XVC_" + METHOD_KEY, m)]
        else:
            c["C"] = ["%s=%s" % (ALG_KEY, a), "%s = %s" % (METHOD_KEY, m)]
    return c


def cli_cases(tier, rng):
    names = ["xdg", "P", "L", "E", "C"]
    subsets = [[n for i, n in enumerate(names) if (m >> i) & 1] for m in range(32)]
    out = [cli_case(format(w, "05b"), s) for s in subsets for w in range(32)]
    # independent keys per source: the algorithm from one source, the method from another
    for _ in range(100 if tier == "quick" else 4000):
        c = {"level": "cli", "W": "".join(rng.choice("01") if rng.random() < 0.5 else "0" for _ in range(5)), "xdg": None, "P": [], "L": [], "E": [], "C": []}
        for name in names:
            kv = []
            if rng.random() < 0.4:
                kv.append((ALG_KEY, rng.choice(["blake3", "blake2", "sha2", "sha3", "sha2", "b2", "s3"])))
            if rng.random() < 0.4:
                kv.append((METHOD_KEY, rng.choice(METHODS)))
            if rng.random() < 0.2:
                kv.append(("file.list.sort", "name-asc"))
            if name in ("xdg", "P", "L"):
                c[name] = [(k, ("s", v)) for k, v in kv] if (kv or name != "xdg") else None
            elif name == "E":
                c["E"] = [("XVC_" + k, v) for k, v in kv]
            else:
                c["C"] = ["%s=%s" % (k, v) for k, v in kv]
        out.append(c)
    return out


# ---- shrinking -----------------------------------------------------------------------------------------------
def shrink_api(c, fails):
    """drop sources / entries / flags while fails(case) holds"""
    cur = dict(c)
    changed = True
    while changed:
        changed = False
        cands = []
        for fld in ("S", "P", "L"):
            if cur[fld] is not None:
                x = dict(cur); x[fld] = None
                if fld == "S":
                    x["U"] = None
                cands.append(x)
            if isinstance(cur[fld], list):
                for i in range(len(cur[fld])):
                    x = dict(cur); x[fld] = cur[fld][:i] + cur[fld][i + 1:]
                    if fld == "S":
                        x["U"] = x["S"]
                    cands.append(x)
        if isinstance(cur["D"], list):
            for i in range(len(cur["D"])):
                x = dict(cur); x["D"] = cur["D"][:i] + cur["D"][i + 1:]; cands.append(x)
        for fld in ("E", "C", "Q"):
            for i in range(len(cur[fld])):
                x = dict(cur); x[fld] = cur[fld][:i] + cur[fld][i + 1:]; cands.append(x)
        for i in range(6):
            if cur["F"][i] == "0":
                x = dict(cur); x["F"] = cur["F"][:i] + "1" + cur["F"][i + 1:]; cands.append(x)
        for x in cands:
            if fails(x):
                cur, changed = x, True
                break
    return cur


def shrink_cli(c, fails):
    cur = dict(c)
    changed = True
    while changed:
        changed = False
        cands = []
        for i in range(5):
            if cur["W"][i] == "1":
                x = dict(cur); x["W"] = cur["W"][:i] + "0" + cur["W"][i + 1:]; cands.append(x)
        for fld, empty in (("xdg", None), ("P", []), ("L", [])):
            if cur[fld]:
                x = dict(cur); x[fld] = empty; cands.append(x)
                if isinstance(cur[fld], list) and len(cur[fld]) > 1:
                    for i in range(len(cur[fld])):
                        x = dict(cur); x[fld] = cur[fld][:i] + cur[fld][i + 1:]; cands.append(x)
        for fld in ("E", "C"):
            for i in range(len(cur[fld])):
                x = dict(cur); x[fld] = cur[fld][:i] + cur[fld][i + 1:]; cands.append(x)
        for x in cands:
            if fails(x):
                cur, changed = x, True
                break
    return cur


def norm_case(c):
    """JSON round trip makes tuples lists; normalise"""
    c = json.loads(json.dumps(c))
    for fld in ("D", "S", "U", "P", "L", "xdg"):
        if isinstance(c.get(fld), list):
            c[fld] = [(k, tuple(v)) for k, v in c[fld]]
    c["E"] = [tuple(x) for x in c.get("E", [])]
    return c


# ---- the check -----------------------------------------------------------------------------------------------
def load_gen():
    spec = importlib.util.spec_from_file_location("config_tables", os.path.join(C.ROOT, "gen", "config_tables.py"))
    m = importlib.util.module_from_spec(spec)
    spec.loader.exec_module(m)
    return m


def parse_defaults(gen, line):
    out = []
    for k, v, s in gen.parse_entries(line):
        if v[0] == "b":
            out.append((k, ("b", v[1:] == "1")))
        elif v[0] == "i":
            out.append((k, ("i", int(v[1:]))))
        elif v[0] == "s":
            out.append((k, ("s", bytes.fromhex(v[1:]).decode())))
    return out


def run(chk, replay=None):
    tier, rng = chk.tier, chk.rng
    quick = tier == "quick"
    chk.cov["trusted_base"] = TRUSTED
    chk.assumptions += ["the system and the user configuration file are one path on this platform (checked: confdrv `paths`); the sweep realises the 2^6 subsets with system = user against the code and the other 2^6 subsets against model and oracle only",
                        "environment variables of one case map to distinct keys; case strings are ASCII"]
    confdrv = C.ensure_harness(["confdrv"])["confdrv"]
    rc, o = run_confdrv(confdrv, ["defaults", "paths"])
    defaults_line = o[0] if o and o[0].startswith("ok ") else None
    same_path = len(o) > 1 and o[1].startswith("paths ") and len(set(o[1].split()[1:])) == 1

    # 1. regenerate the tables from /repo's current source
    gen = load_gen()
    gres = gen.generate(C.REPO, os.path.join(C.COQ, "theories", "Gen"), defaults_line)
    chk.cov["translators"] = {k: ("ok" if v is None else "FAILED: " + v) for k, v in gres.items()}
    for k, v in gres.items():
        if v is not None:
            C.log("translator %s: %s" % (k, v))
    try:
        once = gen.parse_cli_split(C.REPO)
    except Exception as e:
        once = None
    chk.cov["cli_split_once"] = once
    chk.cov["theorems_applying_to_this_tree"] = {
        "cli_value_whole": once is True, "cli_value_truncated_refuted": once is False,
        "cli_value_whole_outside_class": True, "cli_option_panics_iff_no_equals": True}

    # 2. the proof against the regenerated tables
    a = chk.proof()
    if a["problems"]:
        terr = "; ".join("%s: %s" % (k, v) for k, v in gres.items() if v)
        for n, f in enumerate(chk.failures):
            if f.kind == "proof" and f.replay is None:
                f.replay = chk.write_replay("obligation%d" % n, {
                    "kind": "broken-obligation", "what": f.what, "translators": chk.cov["translators"],
                    "theorem_or_correspondence": "Props/C20.v against the tables regenerated from /repo" + (" (translator: %s)" % terr if terr else ""),
                    "build_log_tail": a.get("build_log_tail", "")[-1500:]})

    # 3. model and implementation
    model = C.ensure_model("Conf", ["Base/Amap.v", "Config/Types.v", "Config/Model.v", "Gen/ConfigOrder.v",
                                    "Gen/CliSwitches.v", "Gen/CachePrefix.v"])
    xvc = C.ensure_xvc()
    _, t = C.run_lines(model, ["tables"])
    chk.cov["tables"] = t[0] if t else None
    m = re.search(r"noop=(\S*)", t[0] if t else "")
    chk.cov["computed_noop_switches"] = [x for x in (m.group(1).split(",") if m else []) if x]
    chk.cov["system_and_user_are_one_path"] = same_path
    dkeys = parse_defaults(gen, defaults_line) if defaults_line else []
    mdefaults = [(k, (("s", "GUID") if k == "core.guid" else v)) for k, v in dkeys]

    # 4. cases: corpus (or the replay) first, then generated
    api, cli = [], []
    if replay:
        c = norm_case(replay["input"])
        (api if c.get("level") == "api" else cli).append(c)
    else:
        cdir = os.path.join(C.ROOT, "corpus", "C20")
        for f in sorted(os.listdir(cdir)) if os.path.isdir(cdir) else []:
            c = norm_case(json.load(open(os.path.join(cdir, f)))["input"])
            (api if c.get("level") == "api" else cli).append(c)
    ncorpus = (len(api), len(cli))
    split, nexh = [], 0
    if not replay:
        ex = list(exhaustive_api(False))
        nexh = len(ex)
        api += ex
        split = list(exhaustive_api(True))
        if not same_path:            # a platform (or a repaired tree) with two paths realises every subset
            api += split
            nexh += len(split)
            split = []
        api += [random_api(rng, dkeys) for _ in range(5000 if quick else 200000)] if dkeys else []
        cli += cli_cases(tier, rng)
    dist = {"api_corpus": ncorpus[0], "cli_corpus": ncorpus[1], "api_exhaustive_realised": 0, "api_exhaustive_model_only": len(split),
            "api_random": 0, "cli": len(cli), "api_panic_or_unjudged": 0, "overrides": 0}

    # 5. API level
    lines = [api_line(c) for c in api]
    rc_m, out_m = run_model(model, lines)
    rc_r, out_r = run_confdrv(confdrv, lines)
    out_m = [canon_model(x) for x in out_m]
    if rc_m or rc_r or len(out_m) != len(lines) or len(out_r) != len(lines):
        chk.fail("correspondence", "a driver crashed or produced a different number of lines (model rc=%s n=%d, impl rc=%s n=%d)" % (
            rc_m, len(out_m), rc_r, len(out_r)), {"theorem_or_correspondence": API_TIE}, name="drv", has_input=False)
    bad_api = []
    for i, (c, om, orr) in enumerate(zip(api, out_m, out_r)):
        srcs = sources_api(c)
        nover = 0
        for k in c["Q"][:1]:
            nover = sum(1 for _, en, mm in srcs if en and mm and k in mm)
        chk.count(lines[i], nover >= 2)
        dist["overrides"] += nover >= 2
        if i >= ncorpus[0]:
            dist["api_exhaustive_realised" if i < ncorpus[0] + nexh else "api_random"] += 1
        fs = oracle_api(c, orr)
        if fs is None:
            dist["api_panic_or_unjudged"] += 1
        if fs:
            for f in fs[:6]:
                bad_api.append(("oracle", c, f, om, orr))
        elif om != orr:
            bad_api.append(("correspondence", c, None, om, orr))
    # the subsets the platform cannot realise: model against the oracle and against its own specification
    if split:
        sl = [api_line(c) for c in split]
        _, so = run_model(model, sl)
        _, sc = run_model(model, [api_line(c, "check") for c in split])
        for c, o1, o2 in zip(split, so, sc):
            chk.cov["evaluations"] += 1
            fs = oracle_api(c, canon_model(o1))
            if fs or o2 != "check 1":
                chk.fail("correspondence", "model and oracle disagree on a source subset with system != user: %s" % (fs[0]["what"] if fs else o2),
                         {"input": c, "model": o1, "theorem_or_correspondence": "effective_highest_priority / check_effective (model) vs the oracle"},
                         name="split", has_input=False)
                break
    for s in (lines[ncorpus[0]] if len(lines) > ncorpus[0] else None, lines[-1] if lines else None):
        if s:
            chk.sample(s[:400])

    # 6. CLI level
    obs = run_cli(xvc, cli, threads=8 if quick else 12)
    _, mo = run_model(model, [cli_model_line(c, mdefaults) for c in cli]) if cli else (0, [])
    bad_cli = []
    kinds = {}
    for c, ob, om in zip(cli, obs, mo):
        chk.count(json.dumps(c, sort_keys=True), "1" in c["W"] or sum(1 for x in (c["xdg"], c["P"], c["L"], c["E"], c["C"]) if x) >= 2)
        chk.cov["traces_validated_against_impl"] += 1
        kinds[ob["kind"] if not ob["failed"] else "failed"] = kinds.get(ob["kind"] if not ob["failed"] else "failed", 0) + 1
        if ob.get("timeout"):
            kinds["timeout"] = kinds.get("timeout", 0) + 1
            continue
        exp, why = cli_expect_oracle(c)
        mexp = cli_expect_from_model(om)
        if exp is not None and not same_obs(exp, ob):
            bad_cli.append(("oracle", c, exp, ob))
        elif mexp is not None and not same_obs(mexp, ob):
            bad_cli.append(("correspondence", c, mexp, ob))
    dist["cli_observed"] = kinds
    if cli:
        chk.sample("xvc %s %s file track  [xdg=%s P=%s L=%s E=%s]" % (" ".join(s for s, b in zip(SWITCHES, cli[-1]["W"]) if b == "1"),
                   " ".join("-c " + x for x in cli[-1]["C"]), cli[-1]["xdg"], cli[-1]["P"], cli[-1]["L"], cli[-1]["E"]))

    # 7. shrink, classify, report
    reported, seen_klass, seen_inputs, attempts = 0, set(), set(), 0
    for kind, c, f, om, orr in bad_api:
        if reported >= 3 and kind != "oracle":
            continue
        if kind == "oracle":
            # cheap pre-classification on the unshrunk input avoids shrinking hundreds of known cases
            k0 = klass_api(c, f)
            if k0 is not None and k0 in seen_klass:
                continue
            if k0 is None and (reported >= 3 or attempts >= 12):
                continue
            attempts += k0 is None

            def fails(x, aspect=f["aspect"], key=f["key"], k0=k0):
                _, o = run_confdrv(confdrv, [api_line(x)], shards=1)
                r = oracle_api(x, o[0])
                return bool(r) and any(y["aspect"] == aspect and y["key"] == key and klass_api(x, y) == k0 for y in r)
            s = shrink_api(c, fails)
            _, o = run_confdrv(confdrv, [api_line(s)], shards=1)
            _, mo2 = C.run_lines(model, [api_line(s)])
            r = [y for y in (oracle_api(s, o[0]) or []) if y["aspect"] == f["aspect"] and y["key"] == f["key"]]
            f2 = r[0] if r else f
            kl = klass_api(s, f2)
            if kl is not None and kl in seen_klass:
                continue
            sig = json.dumps([s, f2["aspect"], f2["key"]], sort_keys=True)
            if sig in seen_inputs:
                continue
            seen_inputs.add(sig)
            if kl:
                seen_klass.add(kl)
            elif reported >= 3:
                continue
            chk.fail("oracle", f2["what"], {"input": s, "line": api_line(s), "observed": o[0], "model": canon_model(mo2[0]) if mo2 else None,
                                            "failure": f2, "kind": "impl-history"}, name="api", klass=kl)
            reported += kl is None
        else:
            def differs(x):
                _, o = run_confdrv(confdrv, [api_line(x)], shards=1)
                _, m2 = C.run_lines(model, [api_line(x)])
                return bool(o) and bool(m2) and canon_model(m2[0]) != o[0]
            s = shrink_api(c, differs)
            _, o = run_confdrv(confdrv, [api_line(s)], shards=1)
            _, m2 = C.run_lines(model, [api_line(s)])
            chk.fail("correspondence", "model and implementation differ", {"input": s, "line": api_line(s), "model": canon_model(m2[0]), "observed": o[0],
                     "theorem_or_correspondence": API_TIE}, name="api", has_input=False)
            reported += 1
    w = CliWorker(xvc)
    try:
        for kind, c, exp, ob in bad_cli:
            if kind == "oracle":
                k0 = klass_cli(c, ob)
                if k0 is not None and k0 in seen_klass:
                    continue
                if k0 is None and (reported >= 3 or attempts >= 20):
                    continue
                attempts += k0 is None

                def fails(x, k0=k0):
                    e, _ = cli_expect_oracle(x)
                    if e is None:
                        return False
                    o = w.run(x)
                    return not same_obs(e, o) and (klass_cli(x, o) is None) == (k0 is None)
                s = shrink_cli(c, fails) if not replay else c
                ob2 = w.run(s)
                e2, _ = cli_expect_oracle(s)
                if e2 is None or same_obs(e2, ob2):
                    s, ob2, e2 = c, ob, exp           # a flaky shrink: report the original
                kl = klass_cli(s, ob2)
                if kl is not None and kl in seen_klass:
                    continue
                sig = json.dumps(s, sort_keys=True)
                if sig in seen_inputs:
                    continue
                seen_inputs.add(sig)
                if kl:
                    seen_klass.add(kl)
                elif reported >= 3:
                    continue
                cmd = "xvc %s file track <file>" % " ".join([x for x, b in zip(SWITCHES, s["W"]) if b == "1"] + ["-c " + x for x in s["C"]])
                chk.fail("oracle", "%s: expected prefix %s / %s, observed %s" % (cmd, e2["prefixes"], e2["kind"], {k: ob2[k] for k in ("failed", "prefixes", "kind")}),
                         {"input": s, "command": cmd, "expected": e2, "observed": ob2, "kind": "impl-history"}, name="cli", klass=kl)
                reported += kl is None
            elif reported < 3:
                chk.fail("correspondence", "model and xvc binary differ: model %s, observed %s" % (exp, ob),
                         {"input": c, "model": exp, "observed": ob, "theorem_or_correspondence": CLI_TIE}, name="cli", has_input=False)
                reported += 1
    finally:
        w.close()

    chk.cov["rule"] = ("api level: for one key of each type (string cache.algorithm, bool git.use_git, integer pipeline.process_pool_size) every subset of the seven sources "
                       "defining it x all 2^6 combinations of the six source selectors of XvcConfigParams (exhaustive: 2^6 subsets with system = user run against the code, "
                       "the other 2^6 against model + oracle), then random worlds over all keys of default_project_config (typed values, missing / directory / non-TOML files, "
                       "look-alike and malformed strings through XVC_ variables and -c, padding, later -c overriding, exotic XVC names, -c without '='); "
                       "cli level: xvc <every combination of the five --no-*-config switches> -c .. file track on scratch repositories whose user, project, local files, "
                       "environment and -c define cache.algorithm and file.recheck.method. "
                       "non-trivial = at least two enabled sources define the judged key (api) / a switch is given or two sources define a key (cli); distinct by input line")
    chk.cov["distribution"] = dist
    chk.cov["exhaustive"] = not replay
    chk.cov["disagreements"] = {"api": len(bad_api), "cli": len(bad_cli)}
    return chk
