"""C04 — every committed version stays restorable until explicitly removed.
proof (Props/C04.v: a Git commit holds a prefix of the append-only store directory, which replays to the
records of that moment (M-ECS), and no track / carry-in / recheck deletes or alters a cache object (M-REPO))
+ correspondence: the core items of every history also run on the extracted M-REPO (repomodel)
+ an oracle written from the property text, on real Git repositories: after a history of edits and commits
  (carry-in, track of new files, copy, move) with automatic Git commits c1..cn, for every i:
  `git checkout ci`, remove the data files, `xvc file recheck` reproduces the tracked files as they were
  committed at ci; the cache only grows; `untrack --restore-versions` writes every recorded version."""
import os, json, shutil, subprocess, re
from concurrent.futures import ThreadPoolExecutor
from . import common as C, repo as R, repocheck as K, repoext as X
from .xvc import XvcRepo

PATHS = ["a.txt", "d/b.txt", "d/e/c.dat", "n", "w.json", "d/v.tar.gz"]
DESTS = {"a.txt": ["a2.txt", "d/a3.txt", "o/"], "d/b.txt": ["b2.txt", "o/"], "d/e/c.dat": ["c2.dat", "d/c3.dat"], "n": ["n2", "d/n3"]}
CROSS = {"a.txt": "a.bin", "d/e/c.dat": "c.txt"}      # destination with another extension: class cross-ext (P3)
# the model switch fixed_P3 (Repo/Ext.v), read from the source of the working tree on every run: with the repair the
# class is empty (Props/C04.cross_ext_class_empty_when_fixed), nothing is suppressed and cross-extension copies AND
# moves (of paths with several committed versions) are generated
FIXED_P3 = False


def gen_history(rng, n=(5, 10), fixed_p3=False):
    paths = rng.sample(PATHS, rng.randint(1, 3))
    method = rng.choice(["copy", "copy", "hardlink", "symlink"])
    items, ver = [], 0
    tracked = []
    for p in paths:
        ver += 1
        items.append(["W", p, ("%s v%d\n" % (p, ver)).encode().hex()])
    items.append(["track", list(paths)]); tracked += paths
    for _ in range(rng.randint(*n)):
        k = rng.random()
        if k < 0.35 and tracked:
            p = rng.choice(tracked); ver += 1
            earlier = [i[2] for i in items if i[0] == "W" and i[1] == p][:-1]
            if earlier and rng.random() < 0.25:
                # the content goes BACK to an earlier version of the path (A, B, A): the commit of the third state records A again
                items.append(["W", p, rng.choice(earlier)])
            else:
                items.append(["W", p, ("%s v%d %s" % (p, ver, "x" * rng.randint(0, 3))).encode().hex()])
            items.append(["carry", [p]])
            if rng.random() < 0.3:
                # committing again with --force (same content): still "committing", must not lose a version
                items.append([rng.choice(["carryf", "trackf"]), [p]])
        elif k < 0.45:
            fresh = [p for p in PATHS if p not in tracked and p not in [i[1] for i in items if i[0] == "W"]]
            if fresh:
                p = rng.choice(fresh); ver += 1
                items.append(["W", p, ("%s v%d\n" % (p, ver)).encode().hex()])
                items.append(["track", [p]]); tracked.append(p)
        elif k < 0.62 and tracked:
            s = rng.choice([t for t in tracked if t in DESTS] or [None])
            if s:
                d = rng.choice(DESTS[s])
                if rng.random() < (0.3 if fixed_p3 else 0.06) and s in CROSS:
                    d = CROSS[s]
                items.append(["copy", s, d])
                tracked.append(d if not d.endswith("/") else d + s)
                if s in CROSS and d == CROSS[s] and rng.random() < 0.6:
                    # the two paths now have objects 0.<ext> side by side in ONE digest directory: committing one of them
                    # again with --force replaces its own object and must leave the sibling alone
                    items.append([rng.choice(["carryf", "trackf"]), [rng.choice([s, d])]])
        elif k < 0.75 and tracked:
            s = rng.choice([t for t in tracked if t in DESTS] or [None])
            if s:
                d = rng.choice([x for x in DESTS[s] if not x.endswith("/")])
                if fixed_p3 and s in CROSS and CROSS[s] not in tracked and rng.random() < 0.3:
                    d = CROSS[s]
                items.append(["move", s, d])
                tracked.remove(s); tracked.append(d)
        elif k < 0.80 and tracked:
            # another path gets the bytes of an EARLIER version of a tracked path (same extension: one object), is tracked
            # and untracked again: untrack may delete only what nothing else refers to, in any version
            olds = [(p, i[2]) for p in tracked for i in items if i[0] == "W" and i[1] == p][:-1]
            fresh = [q for q in PATHS if q not in tracked and q not in [i[1] for i in items if i[0] == "W"]]
            cand = [(p, hx_, q) for p, hx_ in olds for q in fresh if R.ext_of(q) == R.ext_of(p)]
            if cand:
                p, hx_, q = rng.choice(cand)
                items.append(["W", q, hx_]); items.append(["track", [q]]); items.append(["untrack", [q]])
        elif k < 0.87 and tracked:
            items.append(["D", rng.choice(tracked)]); items.append(["recheck", []])
        else:
            items.append(["recheck", []])
    return {"method": method, "items": items}


def data_files(root):
    out = []
    for dp, dn, fn in os.walk(root):
        dn[:] = [d for d in dn if not (dp == root and d in (".xvc", ".git"))]
        for f in fn:
            if f not in (".gitignore", ".xvcignore"):
                out.append(os.path.join(dp, f))
    return out


def committed_snapshot(root):
    """path -> bytes of the version recorded for it (read from the cache object the record names)"""
    o = R.observe_real(root, "Ok")
    snap = {}
    for p, rec in o["recs"].items():
        dg = rec[0]
        if dg == "-":
            continue
        addr = "%s/%s" % (dg, R.ext_of(p))
        e = o["objs"].get(addr)
        snap[p] = e[3] if e and e[0] == "F" else None      # None: the object of the recorded version is missing
    return snap, o


def run_history(xvc, h):
    rp = XvcRepo(xvc, prefix="c04", git=True)
    res = {"commits": [], "problems": [], "steps": 0, "versions": {}, "cross_ext": False}
    try:
        tick = 0
        prev_objs = {}
        for it in h["items"]:
            k = it[0]
            if k == "W":
                tick += 1
                rp.write(it[1], bytes.fromhex(it[2]), mtime_ns=R.BASE_NS + tick * 1_000_000_000)
                continue
            if k == "D":
                if os.path.lexists(rp.path(it[1])):
                    os.unlink(rp.path(it[1]))
                continue
            if k == "track":
                r = rp.xvc("file", "track", "--recheck-method", h["method"], *it[1])
            elif k == "carry":
                r = rp.xvc("file", "carry-in", *it[1])
            elif k == "carryf":
                r = rp.xvc("file", "carry-in", "--force", *it[1])
            elif k == "trackf":
                r = rp.xvc("file", "track", "--force", *it[1])
            elif k == "recheck":
                r = rp.xvc("file", "recheck", *it[1])
            elif k == "untrack":
                r = rp.xvc("file", "untrack", *it[1])
            elif k in ("copy", "move"):
                if R.ext_of(it[1]) != R.ext_of(it[2]) and not it[2].endswith("/"):
                    res["cross_ext"] = True
                r = rp.xvc("file", k, it[1], it[2])
            else:
                raise ValueError(k)
            res["steps"] += 1
            if r.panicked:
                res["problems"].append(("panic", "%s panicked: %s" % (it, r.err[-200:])))
                break
            head = rp.git("rev-parse", "HEAD").stdout.strip()
            snap, o = committed_snapshot(rp.root)
            # versions ever committed per still-tracked path (from the digest event log) all have their object
            for p, rec in o["recs"].items():
                for dg in rec[3]:
                    addr = "%s/%s" % (dg, R.ext_of(p))
                    if addr not in o["objs"]:
                        res["problems"].append(("version-lost", "after %s: version %s of %s has no cache object" % (it, dg[:14], p)))
            # committing never deletes or alters an object (untrack may delete: what it must keep is judged by the
            # version-lost clause above -- every version of every still tracked path has its object)
            for a, e in prev_objs.items():
                if a not in o["objs"] and k == "untrack":
                    continue
                if a not in o["objs"]:
                    res["problems"].append(("object-deleted", "after %s: cache object %s disappeared" % (it, a)))
                elif o["objs"][a][3] != e[3]:
                    res["problems"].append(("object-altered", "after %s: cache object %s changed" % (it, a)))
            prev_objs = o["objs"]
            for p, b in snap.items():
                if b is not None:
                    res["versions"].setdefault(p, [])
                    if b not in res["versions"][p]:
                        res["versions"][p].append(b)
            st = rp.git("status", "--porcelain", "--", ".xvc").stdout.strip()
            if not res["commits"] or res["commits"][-1][0] != head:
                res["commits"].append((head, snap, str(it)))
            elif res["commits"]:
                res["commits"][-1] = (head, snap, str(it)) if not st else res["commits"][-1]
        # ---- the store files of every commit are still there, byte for byte, in every later commit
        #      (the real counterpart of Props/C04.commit_is_prefix)
        trees = []
        for (cid, snap, what) in res["commits"]:
            t = {}
            for l in rp.git("ls-tree", "-r", cid, "--", ".xvc/store", ".xvc/ec").stdout.split("\n"):
                m = re.match(r"\d+ blob ([0-9a-f]+)\t(.+)$", l)
                if m:
                    t[m.group(2)] = m.group(1)
            trees.append(t)
        for i in range(len(trees) - 1):
            for f, b in trees[i].items():
                if trees[i + 1].get(f) != b:
                    res["problems"].append(("store-file-rewritten", "store file %s of commit %s is %s in the next commit (%s)" % (
                        f, res["commits"][i][0][:8], "missing" if f not in trees[i + 1] else "rewritten", res["commits"][i + 1][2])))
        res["store_files"] = len(trees[-1]) if trees else 0
        # ---- checkout of every commit xvc made + recheck in a workspace without the data files
        for (cid, snap, what) in res["commits"]:
            co = rp.git("checkout", "-q", "-f", "--detach", cid)   # -f: the recheck of the previous round appended to .gitignore files
            if co.returncode != 0:
                res["problems"].append(("checkout", "git checkout %s failed: %s" % (cid[:8], co.stderr[-200:])))
                continue
            for f in data_files(rp.root):
                try:
                    os.unlink(f)
                except OSError:
                    pass
            r = rp.xvc("--skip-git", "file", "recheck")
            for p, b in snap.items():
                got = rp.read(p)
                if b is None:
                    continue
                if got is None or got.hex() != b:
                    res["problems"].append(("checkout-recheck", "commit %s (after %s): %s restored as %r, committed %r" % (
                        cid[:8], what, p, None if got is None else got[:30], bytes.fromhex(b)[:30])))
            extra = [os.path.relpath(f, rp.root) for f in data_files(rp.root) if os.path.relpath(f, rp.root) not in snap]
            if extra:
                res["problems"].append(("checkout-recheck", "commit %s: recheck created untracked-at-that-time files %s" % (cid[:8], extra)))
        # ---- untrack --restore-versions on the newest commit
        if res["commits"]:
            rp.git("checkout", "-q", "-f", "--detach", res["commits"][-1][0])
            rp.xvc("--skip-git", "file", "recheck")
            snap = res["commits"][-1][1]
            multi = [p for p in snap if len(res["versions"].get(p, [])) >= 1 and snap[p] is not None]
            if multi:
                p = sorted(multi, key=lambda q: -len(res["versions"][q]))[0]
                o = R.observe_real(rp.root, "Ok")
                want = set()
                for dg in o["recs"].get(p, [None, None, None, []])[3]:
                    e = o["objs"].get("%s/%s" % (dg, R.ext_of(p)))
                    if e:
                        want.add(e[3])
                r = rp.xvc("--skip-git", "file", "untrack", "--restore-versions", "restored", p)
                got = set()
                rd = rp.path("restored")
                for dp, dn, fn in os.walk(rd):
                    for f in fn:
                        got.add(open(os.path.join(dp, f), "rb").read().hex())
                res["restore"] = {"path": p, "versions_recorded": len(want), "files_written": len(got)}
                if not r.panicked and want - got:
                    res["problems"].append(("restore-versions", "untrack --restore-versions %s wrote %d of %d recorded versions" % (p, len(want & got), len(want))))
        return res
    finally:
        rp.cleanup()


def classify(h, kind, res):
    if res["cross_ext"] and not FIXED_P3:
        return "cross-ext"
    return None


def run(chk, replay=None):
    chk.cov["trusted_base"] = K.REPO_TRUSTED + [
        "C04: Git itself (2.39) is used as it is: a checkout restores the committed set of store files; the oracle reads committed bytes from the cache object named by the record (vlib/repo.py observer)"]
    chk.cov["rule"] = ("generated histories (writes of new versions + carry-in, track of new files, copy, move, delete + recheck) with automatic Git commits; "
                       "after the history every commit xvc made is checked out, the data files are removed, `xvc file recheck` must reproduce the committed files; "
                       "non-trivial = the history made >= 3 commits and some path has >= 2 committed versions; distinct by history")
    chk.proof()
    global FIXED_P3
    flags = X.flags_from_source()
    FIXED_P3 = flags[5] == "1"
    chk.cov["model_switches"] = {"fixed_P3": FIXED_P3, "read_from": "file/src/{copy,mv,common}/mod.rs of the working tree (vlib/repoext.py flags_from_source)"}
    xvc = C.ensure_xvc()
    hs = []
    if replay:
        hs = [replay["input"]]
    else:
        cdir = os.path.join(C.ROOT, "corpus", "C04")
        for f in sorted(os.listdir(cdir)) if os.path.isdir(cdir) else []:
            hs.append(json.load(open(os.path.join(cdir, f)))["input"])
        for i in range(90 if chk.tier == "quick" else 800):
            hs.append(gen_history(chk.rng, fixed_p3=FIXED_P3))
    with ThreadPoolExecutor(12) as ex:
        results = list(ex.map(lambda h: run_history(xvc, h), hs))
    dist = {"histories": len(hs), "store_files_checked": sum(r.get("store_files", 0) for r in results), "commands": 0, "commits_checked_out": 0, "copy": 0, "move": 0, "carry": 0, "max_versions": 0, "restore_versions": 0,
            "cross_ext_histories": sum(1 for r in results if r["cross_ext"]), "cross_ext_histories_without_problem": sum(1 for r in results if r["cross_ext"] and not r["problems"])}
    reported = set()
    for h, res in zip(hs, results):
        nver = max([len(v) for v in res["versions"].values()] or [0])
        dist["commands"] += res["steps"]; dist["commits_checked_out"] += len(res["commits"])
        dist["max_versions"] = max(dist["max_versions"], nver)
        dist["restore_versions"] += 1 if "restore" in res else 0
        for it in h["items"]:
            if it[0] in ("copy", "move", "carry"):
                dist[it[0]] += 1
        chk.count(json.dumps(h, sort_keys=True), len(res["commits"]) >= 3 and nver >= 2)
        chk.cov["traces_validated_against_impl"] += len(res["commits"])
        if len(chk.cov["samples"]) < 4:
            chk.sample({"history": h, "commits": [c[0][:8] for c in res["commits"]], "versions_per_path": {p: len(v) for p, v in res["versions"].items()}})
        for kind, what in res["problems"]:
            klass = classify(h, kind, res)
            key = (kind, klass)
            if key in reported:
                continue
            reported.add(key)
            chk.fail("oracle", what, {"input": h, "problem": kind, "all_problems": [w for _, w in res["problems"]][:10]}, name=kind.replace("-", ""), klass=klass)
    chk.cov["distribution"] = dist
