"""C18 — commands mean the same from any directory inside the repository.
proof (Props/C18.v, over the sites read from the source by gen/cwd_sites.py)
+ correspondence cwdmodel (extracted M-CWD) vs cwddrv (the real filter_targets_from_store,
  targets_from_disk, XvcPath::new) on generated cases
+ an oracle written from the property text: the same command run (A) from the subdirectory with relative
  targets, (B) from the root with the corresponding root-relative targets, (C) with -C <dir> from a process
  outside the repository, on three identically built repositories, must leave the same records, cache and
  workspace (and print the same list rows)."""
import os, json, stat, subprocess
from concurrent.futures import ThreadPoolExecutor
from . import common as C, repo as R
from .xvc import XvcRepo

TRUSTED = [
    "Coq 8.16.1 kernel (coqc; coqchk in the thorough tier); vm_compute for the witnesses; no axioms (all theorems closed under the global context)",
    "translator gen/cwd_sites.py (regular expressions over file/src/{common,copy,mv,track}/mod.rs) -> Gen/CwdSites.v; a site it does not recognise makes the obligation current_sites_recognised fail",
    "extraction (ExtrOcamlBasic only) + coq/extract/cwd_driver.ml; harness/src/bin/cwddrv.rs; this module",
    "modelled, not verified: file/src/common/mod.rs (filter_targets_from_store, filter_paths_by_globs, build_glob_matcher, targets_from_disk), core XvcPath::new, destination resolution of copy/move, directory targets of track, list names; the commands are assumed to depend on the directory only through these (validated by the paired runs)",
    "abstracted: the glob-set matcher fast_glob::Glob (a Section variable: the theorems hold for every matcher; the correspondence instantiates it with the transliterated glob_match of Glob/Match.v and avoids braces and commas in targets), the disk (Section variables), absolute command-line arguments (excluded by rel_arg)",
]

DIRS = ["d", "d/e", "x", "d/e/f"]
POOL = ["c.txt", "da.txt", "d/a.txt", "d/b.dat", "d/e/f.txt", "d/e/g.txt", "d/e.txt", "de/b.txt", "x/h.txt",
        "d/e/f/k.txt", "d/x/h.txt", "a.txt"]
REL_T = ["a.txt", "b.dat", "e/", "e", "e/f.txt", "*.txt", "*", "e/*.txt", "f.txt", "g.txt", "../c.txt", "./a.txt",
         "f/", "f/k.txt", "x/h.txt", "h.txt", "e.txt", "**/*.txt", "nothere", "e/f", "d/a.txt"]


def hx(s):
    return s.encode().hex() if s else "-"


def hl(l):
    return ",".join(hx(x) for x in l) if l else "-"


def tg(ts):
    return "N" if ts is None else hl(ts)


# ---------------------------------------------------------------------------------------------------------
# function-level correspondence
# ---------------------------------------------------------------------------------------------------------
def gen_fn_cases(rng, n):
    cases = []
    for i in range(n):
        cwd = rng.choice(["", "d", "d", "d/e", "x"])
        k = rng.random()
        if k < 0.15:
            ts = None
        elif k < 0.2:
            ts = []
        else:
            ts = [rng.choice(REL_T) for _ in range(rng.randint(1, 3))]
        stored = sorted(set(rng.sample(POOL, rng.randint(2, 8))))
        cases.append(("store", cwd, ts, stored))
    for i in range(n // 3):
        cwd = rng.choice(["", "d", "d/e", "x"])
        k = rng.random()
        ts = None if k < 0.15 else ([] if k < 0.2 else [rng.choice(REL_T) for _ in range(rng.randint(1, 2))])
        cases.append(("disk", cwd, ts, None))
    strs = ["a.txt", "o/a.txt", "../c.txt", "./a.txt", "e/../a.txt", "e//f.txt", "..", "../..", "../../zz", ".", "e/.",
            "e/", "a b.txt", "é.txt", "../x/h.txt", "../../r/c.txt", "", "o", "o/p/q"]
    for i in range(n // 3):
        cases.append(("xpath", rng.choice(["", "d", "d/e", "x"]), rng.choice(strs), None))
    return cases


def fn_correspondence(chk, model, drv, xvc):
    n = 300 if chk.tier == "quick" else 3000
    cases = gen_fn_cases(chk.rng, n)
    rp = XvcRepo(xvc, prefix="c18fn", git=False)
    try:
        for d in DIRS + ["de", "d/x"]:
            os.makedirs(rp.path(d), exist_ok=True)
        for p in POOL:
            rp.write(p, "x")
        rootabs = os.path.realpath(rp.root)
        # what the walk reports (the model's `disk`) and which strings name directories: taken from the disk
        rc, out = C.run_lines(drv, ["disk %s - N" % rootabs])
        disk = [bytes.fromhex(h).decode() for h in out[0].split()[1].split(",")] if out and out[0].startswith("ok ") and out[0] != "ok -" else []
        dirs = [p for p in disk if os.path.isdir(os.path.join(rootabs, p))]
        dirs_all = dirs + [p + "/" for p in dirs]
        rlines, mlines = [], []
        comps_root = [c for c in rootabs.split("/") if c]
        for kind, cwd, a, st in cases:
            if kind == "store":
                rlines.append("store %s %s %s %s" % (rootabs, hx(cwd), tg(a), hl(st)))
                mlines.append("store cur %s %s %s %s %s" % (hx(cwd), hx(cwd), tg(a), hl(st), hl(dirs_all)))
            elif kind == "disk":
                rlines.append("disk %s %s %s" % (rootabs, hx(cwd), tg(a)))
                mlines.append("disk cur %s %s %s %s %s" % (hx(cwd), hx(cwd), tg(a), hl(disk), hl(dirs_all)))
            else:
                rlines.append("xpath %s %s %s" % (rootabs, hx(cwd), hx(a)))
                mlines.append("xpath %s %s %s" % (hl(comps_root), hx(cwd), hx(a)))
        env = dict(rp.env)
        rc, rout = C.run_lines(drv, rlines, env=env, timeout=600)
        rc2, mout = C.run_lines(model, mlines, timeout=600)
        # the same cases rebased to the root, on the real functions: the property itself
        blines = []
        for kind, cwd, a, st in cases:
            pre = (cwd + "/") if cwd else ""
            if kind == "store":
                # no targets -- no list, or the empty list remove / untrack hand over -- is "the current directory"
                ra = a if not cwd else ([pre] if not a else [pre + t for t in a])
                blines.append("store %s - %s %s" % (rootabs, tg(ra), hl(st)))
            elif kind == "disk":
                ra = a if not cwd else ([pre] if a is None else [pre + t for t in a])
                blines.append("disk %s - %s" % (rootabs, tg(ra)))
            else:
                # the corresponding root-relative string, normalised where it stays inside the repository
                na = os.path.normpath(pre + a) if a else a
                if a and (na.startswith("..") or na == "."):
                    na = pre + a
                blines.append("xpath %s - %s" % (rootabs, hx(na)) if a else "xpath %s %s %s" % (rootabs, hx(cwd), hx(a)))
        rc3, bout = C.run_lines(drv, blines, env=env, timeout=600)
    finally:
        rp.cleanup()
    dist = {"store": 0, "disk": 0, "xpath": 0, "cwd_root": 0, "no_targets": 0, "selected_nonempty": 0, "err_or_panic": 0}
    bad_corr, bad_prop = 0, 0
    for i, c in enumerate(cases):
        kind, cwd, a, st = c
        r = rout[i] if i < len(rout) else "<missing>"
        m = mout[i] if i < len(mout) else "<missing>"
        b = bout[i] if i < len(bout) else "<missing>"
        dist[kind] += 1; dist["cwd_root"] += (cwd == ""); dist["no_targets"] += (a is None)
        dist["selected_nonempty"] += (r.startswith("ok ") and r != "ok -"); dist["err_or_panic"] += (not r.startswith("ok"))
        nontrivial = cwd != "" and r.startswith("ok ") and r != "ok -"
        chk.count(("fn", kind, cwd, tuple(a) if isinstance(a, list) else a, tuple(st or ())), nontrivial)
        if i < 3:
            chk.sample({"case": [kind, cwd, a, st], "implementation": r, "model": m, "implementation_at_root_rebased": b})
        if r != b and bad_prop < 3:
            bad_prop += 1
            chk.fail("oracle", "%s from %r with %r gives %s, the rebased call at the root gives %s" % (kind, cwd, a, r, b),
                     {"input": {"level": "function", "case": [kind, cwd, a, st]}, "from_subdir": r, "from_root": b}, name="fnprop")
        if r != m and bad_corr < 3:
            bad_corr += 1
            chk.fail("correspondence", "cwdmodel and cwddrv differ on %s cwd=%r args=%r: model %s, implementation %s" % (kind, cwd, a, m, r),
                     {"theorem_or_correspondence": "cwdmodel vs cwddrv", "case": [kind, cwd, a, st], "model": m, "implementation": r},
                     name="fncorr", has_input=False)
    return dist


# ---------------------------------------------------------------------------------------------------------
# command-level paired runs
# ---------------------------------------------------------------------------------------------------------
FILES = {"c.txt": b"root file\n", "d/a.txt": b"alpha\n", "d/b.dat": b"\x00\x01binary", "d/e/f.txt": b"eff\n",
         "d/e/g.txt": b"gee\n", "x/h.txt": b"aitch\n", "d/u.txt": b"untracked\n"}
BASE_NS = 1_500_000_000_000_000_000


def gen_scenario(rng, idx):
    method = rng.choice(["copy", "copy", "hardlink", "symlink"])
    tracked = [p for p in FILES if p != "d/u.txt" and rng.random() < 0.8]
    if "d/a.txt" not in tracked:
        tracked.append("d/a.txt")
    edits = []
    for p in tracked:
        k = rng.random()
        if k < 0.15 and method == "copy":
            edits.append(("W", p, FILES[p] + b"edited\n"))
        elif k < 0.3:
            edits.append(("D", p))
    cwd = rng.choice(["d", "d", "d/e"])
    rel = {"d": ["a.txt", "b.dat", "e/", "e/f.txt", "*.txt", "e/*.txt", "u.txt", "e"], "d/e": ["f.txt", "g.txt", "*.txt", "*"]}[cwd]
    kind = rng.choice(["track", "carry-in", "recheck", "list", "copy", "move", "remove", "untrack", "track", "recheck", "list"])
    nt = rng.random() < (0.35 if kind in ("remove", "untrack") else 0.2) and kind in ("track", "carry-in", "recheck", "list", "remove", "untrack")
    ts = [] if nt else rng.sample(rel, rng.randint(1, 2))
    opts = []
    dest = None
    if kind == "track":
        if rng.random() < 0.5:
            opts += ["--recheck-method", rng.choice(["copy", "hardlink", "symlink"])]
    elif kind == "carry-in":
        if rng.random() < 0.4:
            opts.append("--force")
    elif kind == "recheck":
        if rng.random() < 0.5:
            opts += ["--recheck-method", rng.choice(["copy", "hardlink", "symlink"])]
        if rng.random() < 0.4:
            opts.append("--force")
    elif kind in ("copy", "move"):
        ts = [rng.choice([t for t in rel if t not in ("e", "u.txt")])]
        dest = rng.choice(["o/", "n.txt", "e/o/", "../o/", "o/p/", "nn.txt"]) if not ts[0].endswith(".dat") else rng.choice(["o/", "n.dat"])
        if "*" in ts[0] or ts[0].endswith("/"):
            dest = rng.choice(["o/", "e/o/", "../o/"])
        if rng.random() < 0.3 and kind == "copy":
            opts.append("--no-recheck")
    elif kind == "remove":
        opts.append("--from-cache")
        ts = [] if nt else [rng.choice(["a.txt", "e/f.txt", "*.txt"] if cwd == "d" else ["f.txt", "*.txt"])]
    elif kind == "untrack":
        ts = [] if nt else [rng.choice(["a.txt", "e/f.txt", "b.dat"] if cwd == "d" else ["f.txt", "g.txt"])]
    return {"idx": idx, "method": method, "tracked": sorted(tracked), "edits": [[e[0], e[1]] + ([e[2].hex()] if len(e) > 2 else []) for e in edits],
            "cwd": cwd, "kind": kind, "opts": opts, "targets": ts, "dest": dest}


def gi_lines(root):
    o = {}
    for dp, dn, fn in os.walk(root):
        dn[:] = [d for d in dn if not (dp == root and d in (".xvc", ".git"))]
        if ".gitignore" in fn:
            try:
                ls = [l for l in open(os.path.join(dp, ".gitignore"), errors="replace").read().split("\n") if l and not l.startswith("#")]
            except OSError:
                ls = ["!unreadable"]
            o[os.path.relpath(os.path.join(dp, ".gitignore"), root)] = sorted(ls)
    return o


def run_variant(xvc, sc, variant):
    """variant: 'sub' (process in the subdirectory, relative targets), 'root' (root, rebased targets),
    'dashC' (process outside the repository, -C <abs dir>, relative targets)"""
    rp = XvcRepo(xvc, prefix="c18", git=False)
    try:
        t = BASE_NS
        for p, b in FILES.items():
            t += 1_000_000_000
            rp.write(p, b, mtime_ns=t)
        r0 = rp.xvc("--skip-git", "file", "track", "--recheck-method", sc["method"], *sc["tracked"])
        for e in sc["edits"]:
            t += 1_000_000_000
            if e[0] == "W":
                rp.write(e[1], bytes.fromhex(e[2]), mtime_ns=t)
            elif os.path.lexists(rp.path(e[1])):
                os.unlink(rp.path(e[1]))
        pre = sc["cwd"] + "/" if sc["cwd"] else ""
        ts, dest = list(sc["targets"]), sc["dest"]
        if variant == "root":
            # "with no targets it applies to the files under the current directory": for every command, also for remove
            # and untrack (which hand an EMPTY list to the target resolution, not no list)
            ts = [pre + x for x in ts] if ts else ([pre] if pre else [])
            # the corresponding root-relative destination is the NORMALISED path ("../o/" in d/e is "d/o/"):
            # XvcPath::new resolves "." and ".." (targets are glob strings and are rebased textually)
            if dest:
                dest = os.path.normpath(pre + dest) + ("/" if dest.endswith("/") else "")
            head, cwd = ["--skip-git"], rp.root
        elif variant == "sub":
            head, cwd = ["--skip-git"], rp.path(sc["cwd"]) if sc["cwd"] else rp.root
        elif sc.get("idx", 0) % 2:
            # -C as a RELATIVE path with `..` in it, from a sibling directory inside the repository
            os.makedirs(rp.path("zz-elsewhere"), exist_ok=True)
            head, cwd = ["-C", os.path.join("..", sc["cwd"]) if sc["cwd"] else "..", "--skip-git"], rp.path("zz-elsewhere")
        else:
            head, cwd = ["-C", rp.path(sc["cwd"]) if sc["cwd"] else rp.root, "--skip-git"], rp.base
        args = head + ["file", sc["kind"]] + sc["opts"]
        if sc["kind"] == "list":
            args += ["--format", "{{name}} {{rcd8}} {{acd8}} {{rrm}}", "--no-summary"]
        args += ts + ([dest] if dest else [])
        r = rp.xvc(*args, cwd=cwd)
        oc = "Panic" if r.panicked else ("Err" if r.failed else "Ok")
        o = R.observe_real(rp.root, oc)
        o["gitignore"] = gi_lines(rp.root)
        # .gitignore / .xvcignore files carry a date line: when a command tracks them (no targets) their
        # objects and digests differ between any two runs; they are compared through gi_lines only
        o["objs"] = {k: v for k, v in o["objs"].items() if not bytes.fromhex(v[3] if v[3] not in ("!", "?") else "").startswith(b"### Following")}
        o["recs"] = {k: v for k, v in o["recs"].items() if not k.endswith((".gitignore", ".xvcignore"))}
        if sc["kind"] == "list":
            rows = sorted(l.strip() for l in r.out.split("\n") if l.strip() and not l.split()[0].endswith((".gitignore", ".xvcignore")))
            if variant == "root":
                rows = sorted((l[len(pre):] if l.startswith(pre) else "OUTSIDE " + l) for l in rows)
            o["rows"] = rows
        o["setup_failed"] = bool(r0.failed)
        o["cmd"] = " ".join(args[len(head) - 1 if variant == "dashC" else 0:])
        o["stderr"] = (r.err or "")[-300:]
        return o
    finally:
        rp.cleanup()


def diff_two(a, b):
    out = []
    # a command that fails in both places is not compared further: how far a failing command got before
    # the error (it visits hash maps) is not a matter of the directory it runs in
    if a["oc"] != "Ok" and b["oc"] != "Ok":
        return out
    if a["oc"] != b["oc"]:
        out.append("outcome %s vs %s" % (a["oc"], b["oc"]))
    for sec in ("ws", "objs", "recs", "gitignore"):
        for k in sorted(set(a[sec]) | set(b[sec])):
            if a[sec].get(k) != b[sec].get(k):
                out.append("%s[%s]: %s vs %s" % (sec, k, R.short(a[sec].get(k)), R.short(b[sec].get(k))))
    if a.get("rows") != b.get("rows"):
        out.append("list rows: %s vs %s" % (a.get("rows"), b.get("rows")))
    return out


def run_scenario(xvc, sc):
    obs = {v: run_variant(xvc, sc, v) for v in ("sub", "root", "dashC")}
    return sc, obs


def changed_something(sc, obs):
    """non-trivial: the command selected something from the subdirectory (it changed the repository, or listed rows)"""
    o = obs["sub"]
    if sc["kind"] == "list":
        return bool(o.get("rows"))
    return o["oc"] == "Ok"


def cmd_level(chk, xvc, replay=None):
    n = 45 if chk.tier == "quick" else 500
    scs = []
    cdir = os.path.join(C.ROOT, "corpus", "C18")
    for f in sorted(os.listdir(cdir)) if os.path.isdir(cdir) else []:
        scs.append(json.load(open(os.path.join(cdir, f)))["input"])
    if replay:
        scs = [replay["input"]]
    else:
        for i in range(n):
            scs.append(gen_scenario(chk.rng, i))
    dist = {"kinds": {}, "cwd": {}, "no_targets": 0, "panic": 0, "err": 0, "effective": 0}
    with ThreadPoolExecutor(12) as ex:
        results = list(ex.map(lambda s: run_scenario(xvc, s), scs))
    reported = 0
    for sc, obs in results:
        dist["kinds"][sc["kind"]] = dist["kinds"].get(sc["kind"], 0) + 1
        dist["cwd"][sc["cwd"]] = dist["cwd"].get(sc["cwd"], 0) + 1
        dist["no_targets"] += (not sc["targets"])
        dist["panic"] += obs["sub"]["oc"] == "Panic"; dist["err"] += obs["sub"]["oc"] == "Err"
        eff = changed_something(sc, obs)
        dist["effective"] += eff
        chk.count(("cmd", json.dumps(sc, sort_keys=True)), eff)
        chk.cov["traces_validated_against_impl"] += 1
        if len(chk.cov["samples"]) < 6:
            chk.sample({"scenario": sc, "command_from_subdir": obs["sub"]["cmd"], "command_from_root": obs["root"]["cmd"],
                        "outcome": obs["sub"]["oc"], "records_after": sorted(obs["sub"]["recs"])})
        for v in ("sub", "dashC"):
            d = diff_two(obs[v], obs["root"])
            if d:
                # a difference is attributed to the directory only if the root run is reproducible and the
                # variant keeps differing (some commands iterate hash maps: with a failing target in the set,
                # how far they get before the error varies from run to run whatever the directory)
                again = [run_variant(xvc, sc, "root") for _ in range(2)]
                if any(diff_two(a, obs["root"]) for a in again):
                    dist["nondeterministic_at_root"] = dist.get("nondeterministic_at_root", 0) + 1
                    continue
                d = diff_two(run_variant(xvc, sc, v), obs["root"])
            if d and reported < 4:
                reported += 1
                chk.fail("oracle", "`%s` run %s differs from `%s` at the root: %s" % (
                    obs[v]["cmd"], "in " + sc["cwd"] if v == "sub" else "with -C from another directory", obs["root"]["cmd"], "; ".join(d[:4])),
                    {"input": sc, "variant": v, "differences": d[:20], "stderr_variant": obs[v]["stderr"], "stderr_root": obs["root"]["stderr"]},
                    name="paired")
    return dist


def run(chk, replay=None):
    chk.cov["trusted_base"] = TRUSTED
    chk.cov["rule"] = ("function level: random (cwd, targets, stored set) cases on the real filter_targets_from_store / targets_from_disk / XvcPath::new vs the extracted model, "
                       "and vs the rebased call at the root; non-trivial = run from a subdirectory and selecting at least one path.  Command level: generated scenarios "
                       "(setup track, user edits, one of track/carry-in/recheck/list/copy/move/remove/untrack) run from the subdirectory, from the root with rebased "
                       "arguments and with -C from outside; non-trivial = the command took effect (Ok outcome / listed rows) from the subdirectory; distinct by full scenario")
    chk.assumptions += ["command-line arguments are relative paths without braces or commas; the three repositories of a paired run are built by the same commands with the same explicit mtimes"]
    # 1. regenerate the sites table from the source, prove
    rc, out = C.sh(["python3", os.path.join(C.ROOT, "gen", "cwd_sites.py"), C.REPO], timeout=60)
    C.log(out.strip())
    chk.cov["sites"] = out.strip()
    a = chk.proof()
    model = C.ensure_model("Cwd", ["Base", "Glob", "Cwd", "Gen"]) if not a.get("failed_at") else None
    if model is None:
        # the obligation broke: the model binary may not build; the searches below still run on the implementation
        try:
            model = C.ensure_model("Cwd", ["Base", "Glob", "Cwd", "Gen"])
        except Exception as e:   # noqa
            C.log("cwdmodel not available: %s" % e)
    drv = C.ensure_harness(["cwddrv"])["cwddrv"]
    xvc = C.ensure_xvc()
    dist = {}
    if replay and replay.get("input", {}).get("level") == "function":
        replay = None
    if not replay and model:
        dist["function_level"] = fn_correspondence(chk, model, drv, xvc)
    dist["command_level"] = cmd_level(chk, xvc, replay)
    chk.cov["distribution"] = dist
    # a broken obligation with a concrete failing input found above is reported with that input
    if any(f.kind == "oracle" for f in chk.failures):
        for f in chk.failures:
            if f.kind == "proof":
                f.has_input = True
                f.replay = next(g.replay for g in chk.failures if g.kind == "oracle")
