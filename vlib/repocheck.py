"""Common driver of the file-repository checks: runs generated histories on the real binary and on
the extracted model M-REPO, applies the property's oracles to every real observation, compares model
and implementation item by item, shrinks and classifies what fails."""
import json, os, itertools
from concurrent.futures import ThreadPoolExecutor
from . import common as C, repo as R

REPO_TRUSTED = [
    "Coq 8.16.1 kernel, coqc; vm_compute in Examples only; no native_compute",
    "axioms: none (Print Assumptions: Closed under the global context)",
    "extraction: ExtrOcamlBasic only; ocamlfind ocamlopt 4.13.1; coq/extract/common.ml + repo_driver.ml (parsing/printing)",
    "correspondence: vlib/repo.py (scenario runner on the hook-instrumented xvc binary built from /repo, observer of workspace / cache / stores, canonicaliser), vlib/repocheck.py; tools/blake3_ref.py and Python hashlib as independent hash implementations",
    "modelled, not verified: file/src/{track,carry_in,recheck}/mod.rs, file/src/common/{mod,compare}.rs (move_to_cache, rename_or_copy, is_link_to_cache, recheck_from_cache, diff_*), core/src/types/{xvcpath,diff}.rs, xvcdigest (text/binary normalisation) as Repo/Model.v (the code before the repairs of P41 and P44/P42) and Repo/Fix.v (the same commands with one switch per repair; Props/C02.v model_with_switches_off: with both switches off it is Repo/Model.v); hash functions are ideal (digest = algorithm + normalised content); the five component stores are seen through their loaded maps (justified by C08); target resolution is given (explicit file targets); .gitignore handling is not in this model",
    "the switches fixed_P44 / fixed_P41 are derived on every run by probing the binary under test (vlib/repo.py:probe_fixes: five small histories whose outcome differs between the code with and without each repair, and four parallel runs of 8 equal files); a probe that fits neither side is a correspondence failure; the model runs under the switches found",
    "the visiting order of the targets of one command (HashMap iteration, rayon, with the repair of P44: sorted groups per cache directory) is a parameter of the model: the order logged by the implementation is used, permutations are tried on a mismatch",
    "environment assumptions: on the implementation side every user write of the runner gets a distinct explicit mtime (in the model edits_visible is a theorem: Repo/Stamps.v); POSIX rename/link/symlink semantics, st_nlink; interleavings INSIDE one carry_in closure are not modelled: until P44 is repaired two closures can race on one cache path (open finding parallel-duplicate-race); with the repair all targets of one cache directory are handled by one thread and closures of different directories touch disjoint files, so every schedule equals a sequential visiting order (argued, and explored by the parallel runs)",
    "theorems exclude boolean classes decided by running the model on the history: relink (a commit renames a workspace symlink / hard link into the cache; open finding P41; EMPTY once P41 is repaired: Props/C02.v relink_class_empty_when_fixed), forced-duplicate (P42; empty once repaired), a symbolic link gone stale inside a forced carry-in that swapped its object for a CR/LF alias (a corner of P2; Props/C02.v stale_link_witness), and where stated the CR/LF alias classes (P2)",
]


def fixed(which):
    """does the binary under test contain the repair (probed on every run: vlib/repo.py:probe_fixes)?"""
    fx = R.current_fixes()
    return fx[{"P44": 0, "P42": 0, "P41": 1, "P49": 2, "P43": 3}[which]] == "1"


def contents_before(robs, j, p):
    """bytes of workspace path p in the real observation before item j (None if absent)"""
    if j == 0:
        return None
    e = robs[j - 1]["ws"].get(p)
    return None if e is None or e[2] == "!" else bytes.fromhex(e[2])


def dup_targets(robs, j, it, cfg):
    """do two targets of item `it` have the same cache address (same extension and same bytes, or
    same CR/LF-normal form) in the workspace before the item?"""
    if it[0] not in ("track", "carry") or len(it[2]) < 2 or j == 0:
        return False
    seen = {}
    for p in it[2]:
        b = contents_before(robs, j, p)
        if b is None:
            continue
        for key in ((R.ext_of(p), b), (R.ext_of(p), b"T" + R.strip_crlf(b))):
            if key in seen and seen[key] != p:
                return True
            seen[key] = p
    return False


def alias_present(robs, j):
    """two distinct byte strings with the same CR/LF-normal form among workspace files and cache
    objects up to item j (the P2 class)"""
    forms = {}
    for o in robs[:j + 1]:
        for sec, idx in (("ws", 2), ("objs", 3)):
            for k, v in o[sec].items():
                if v[idx] in ("!", "?"):
                    continue
                b = bytes.fromhex(v[idx])
                forms.setdefault(R.strip_crlf(b), set()).add(b)
    return any(len(s) > 1 for s in forms.values())


class Scenario:
    def __init__(self, idx, cfg, items, parallel):
        self.idx, self.cfg, self.items, self.parallel = idx, cfg, items, parallel
        self.robs = self.eff = self.log = None


def execute(xvc, sc):
    rr = R.RealRun(xvc, sc.cfg, parallel=sc.parallel)
    try:
        sc.robs, sc.eff = rr.run(sc.items)
        sc.log = rr.log
    finally:
        rr.close()
    return sc


def run_scenarios(xvc, scs, threads=12):
    with ThreadPoolExecutor(threads) as ex:
        return list(ex.map(lambda s: execute(xvc, s), scs))


def to_replay(sc, j=None):
    return {"cfg": sc.cfg, "parallel": sc.parallel,
            "items": [R.item_to_json(i) for i in (sc.items if j is None else sc.items[:j + 1])]}


def from_replay(rep, idx=0):
    return Scenario(idx, rep["cfg"], [R.item_from_json(i) for i in rep["items"]], rep.get("parallel", False))


def shrink_scenario(xvc, sc, fails):
    """drops items while fails(scenario) still returns a truthy value"""
    def still(items):
        s2 = Scenario(sc.idx, sc.cfg, items, sc.parallel)
        try:
            execute(xvc, s2)
            return bool(fails(s2))
        except Exception:
            return False
    items = C.shrink_list(sc.items, still, max_rounds=40)
    s2 = Scenario(sc.idx, sc.cfg, items, sc.parallel)
    execute(xvc, s2)
    return s2


def check_correspondence(chk, model, sc):
    """returns None or a dict describing the disagreement (with the known-class label if any)"""
    mm = R.correspond(model, sc.cfg, sc.eff, sc.robs)
    if mm is None:
        return None
    j, diffs, tries = mm
    it = sc.eff[j] if j < len(sc.eff) else None
    klass = None
    ri = race_index(sc)
    if ri is not None and ri <= j:
        klass = "parallel-duplicate-race"
    return {"item": j, "diffs": diffs[:8], "tries": tries, "klass": klass}


def race_index(sc):
    """index of the first track / carry-in command of a PARALLEL run with two targets that have the same
    cache address (equal bytes or equal CR/LF-normal form, same extension), else None.  The per-target
    closures of carry_in() then race on one cache path (open finding parallel-duplicate-race); the model
    is sequential, and what the implementation does from there on depends on the thread schedule."""
    if not sc.parallel or not sc.robs or fixed("P44"):
        return None          # with the repair the targets of one cache path are handled by one thread: nothing is excluded
    for j, it in enumerate(sc.eff[:len(sc.robs)]):
        if dup_targets(sc.robs, j, it, sc.cfg):
            return j
    return None


# =====================================================================================================
# Oracles written from the property texts, on the REAL observations only (lstat / readlink / bytes /
# store files re-read by vlib/repo.py, hashes recomputed with hashlib + tools/blake3_ref.py).
# Nothing below looks at the model.
# =====================================================================================================
import re as _re

HEX = set("0123456789abcdef")


def addr_of(rec, p):
    """address 'b3/<64hex>/<ext>' of the version recorded for p (rec = observation record)"""
    return None if rec is None or rec[0] == "-" else rec[0] + "/" + R.ext_of(p)


def digest_matches(dstr, data):
    algo, hx_ = dstr.split("/", 1)
    return hx_ in (R.ref_hash(algo, data), R.ref_hash(algo, R.strip_crlf(data)))


def ws_bytes(o, p):
    e = o["ws"].get(p) if o else None
    return None if e is None or e[2] == "!" else bytes.fromhex(e[2])


def obj_bytes(o, a):
    e = o["objs"].get(a) if o else None
    return None if e is None or e[3] in ("!", "?") else bytes.fromhex(e[3])


EMPTY_OBS = {"oc": "Ok", "ws": {}, "objs": {}, "recs": {}, "ino": {}, "wino": {}, "raw": {}}


def before_after(sc):
    prev = EMPTY_OBS
    for j, o in enumerate(sc.robs):
        yield j, sc.eff[j], prev, o
        prev = o


def layout_check(o, cfg):
    """.xvc/<prefix of the configured algorithm>/<3 hex>/<3 hex>/<58 hex>/0.<ext>"""
    bad = []
    for addr, rel in o.get("raw", {}).items():
        parts = rel.split("/")
        ok = (len(parts) == 5 and parts[0] == cfg["algo"] and len(parts[1]) == 3 and len(parts[2]) == 3 and len(parts[3]) == 58
              and set(parts[1] + parts[2] + parts[3]) <= HEX and parts[4].startswith("0."))
        if not ok:
            bad.append("cache file %s does not have the layout %s/3/3/58/0.ext" % (rel, cfg["algo"]))
    return bad


def relink_taint(sc):
    """per item index: the set of cache addresses touched by a commit that renamed a LINK into the cache
    (class 'relink': the target of a track / carry-in was a symlink or a hard link to a cache object
    and the command created a new cache file from it, or replaced one with --force)"""
    tainted, out = set(), []
    if fixed("P41"):
        return [set() for _ in sc.robs]      # no link is renamed into the cache any more: the class is empty
    for j, it, b, a in before_after(sc):
        if it[0] in ("track", "carry"):
            for p in it[2]:
                e = b["ws"].get(p)
                if e is None or e[0] == "F":
                    continue
                new = set(a["objs"]) - set(b["objs"])
                rec_a = addr_of(a["recs"].get(p), p)
                moved = bool(new) or (it[1].get("f") and e[0].startswith("H"))
                if moved:
                    tainted |= new | {e[0][1:]}
                    if rec_a:
                        tainted.add(rec_a)
        # an inode shared by two addresses taints both
        inos = {}
        for ad, i in a.get("ino", {}).items():
            inos.setdefault(i, []).append(ad)
        for ads in inos.values():
            if len(ads) > 1 and set(ads) & tainted:
                tainted |= set(ads)
        out.append(set(tainted))
    return out


def alias_pair(x, y):
    return x is not None and y is not None and x != y and R.strip_crlf(x) == R.strip_crlf(y)


class Expect:
    """what the user is entitled to get back for each path: the bytes that were in the workspace when a
    track / carry-in recorded a digest that these bytes hash to (independently re-hashed) and the object
    of that digest is in the cache.  None = nothing committed (e.g. --no-commit)."""

    def __init__(self):
        self.exp = {}

    def update(self, it, b, a):
        if it[0] not in ("track", "carry") or a["oc"] == "Panic":
            return
        for p in it[2]:
            rec = a["recs"].get(p)
            if rec is None:
                continue
            ad = addr_of(rec, p)
            data = ws_bytes(b, p)
            changed = (b["recs"].get(p) or [None])[0] != rec[0]
            if ad is None or ad not in a["objs"]:
                if changed:
                    self.exp[p] = None
                continue
            kind = (b["ws"].get(p) or ["-"])[0]
            if data is not None and digest_matches(rec[0], data):
                if it[0] == "track" and it[1].get("nc") and changed:
                    self.exp[p] = None          # recorded, not committed
                elif kind == "F" or p not in self.exp:
                    self.exp[p] = data
            elif changed:
                self.exp[p] = None


def c01_oracle(sc):
    """C01: (a) a recheck of a path that was deleted before, or a recheck --force, reproduces exactly the
    committed bytes, for the method used, serial or parallel; (b) no recheck changes the recorded digest
    or the digest history of any path."""
    bad = []
    ex = Expect()
    taint = relink_taint(sc)
    for j, it, b, a in before_after(sc):
        # (c) "stays true after any later sequence of xvc commands that does not explicitly remove that content":
        # the object holding the version recorded for a path is still in the cache after any item of these
        # histories (none of them is `file remove` / `untrack`), also when the command failed or panicked
        if it[0] in ("track", "carry", "recheck"):
            for p, rec in b["recs"].items():
                ad = addr_of(rec, p)
                if ad and ad in b["objs"] and ad not in a["objs"] and p in a["recs"] and addr_of(a["recs"][p], p) == ad:
                    bad.append((j, "the committed content of %s (object %s) is no longer in the cache after `%s`" % (p, ad[:24], it[0] + (" --force" if it[1].get("f") else "")),
                                "relink" if ad in taint[j] else None))
        if it[0] == "carry" and a["oc"] == "Panic" and any(p in b["recs"] and p not in b["ws"] for p in it[2]):
            # (d) a carry-in that meets a path whose workspace copy is gone (the situation the property speaks of: "deleting
            # ... the workspace copy") must leave that path to recheck and commit the others; it stopped with a panic
            bad.append((j, "carry-in panicked on a target that is not in the workspace (%s); none of the other targets was committed" % (
                ", ".join(p for p in it[2] if p in b["recs"] and p not in b["ws"])), None if fixed("P49") else "carry-in-missing-target-panics"))
        if a["oc"] == "Panic":
            break
        ex.update(it, b, a)
        if it[0] == "recheck":
            for p in set(a["recs"]) | set(b["recs"]):
                rb, ra = b["recs"].get(p), a["recs"].get(p)
                if rb is None or ra is None or rb[0] != ra[0] or rb[3] != ra[3]:
                    bad.append((j, "recheck changed the record of %s: %s -> %s" % (p, R.short(rb), R.short(ra)), None))
            lst = a.get("list")
            if lst is not None:
                for p, (rcd, rrm) in lst.items():
                    rb = b["recs"].get(p)
                    if rb is not None and rb[0] != "-" and rcd and rb[0].split("/", 1)[1] != rcd:
                        bad.append((j, "xvc file list shows recorded digest %s for %s after recheck, it was %s" % (rcd[:10], p, rb[0][:13]), None))
            for p in it[2]:
                want = ex.exp.get(p)
                if want is None or p not in b["recs"]:
                    continue
                absent = p not in b["ws"]
                if not (absent or it[1].get("f")):
                    continue
                got = ws_bytes(a, p)
                if got != want:
                    klass = None
                    ad = addr_of(b["recs"].get(p), p)
                    if alias_pair(got, want) or (got is None and ad in taint[j]):
                        klass = "alias" if got is not None else "relink"
                    if ad in taint[j]:
                        klass = "relink"
                    bad.append((j, "recheck%s of %s (%s) gives %s, committed were %s" % (
                        " --force" if it[1].get("f") else "", p, it[1].get("m") or "stored method",
                        R.short(got.hex() if got is not None else None), R.short(want.hex())), klass))
        if it[0] in ("track", "carry"):
            # the commit itself must not lose the bytes it was given (P2: they meet an alias in the cache)
            for p in it[2]:
                want, got = ex.exp.get(p), ws_bytes(a, p)
                if want is not None and got is not None and got != want and ws_bytes(b, p) == want:
                    bad.append((j, "%s of %s replaced its bytes %s by %s" % (it[0], p, R.short(want.hex()), R.short(got.hex())),
                                "alias" if alias_pair(got, want) else None))
    return bad


def c02_oracle(sc):
    """C02: after every item every cache object is at the address of its own bytes (independent hashes,
    raw or CR/LF-stripped), in the documented layout, read-only in a read-only directory, a regular file;
    objects present before and after an item keep their bytes -- and, when the command is not forced,
    their inode; identical content with the same extension is one object."""
    bad = []
    taint = relink_taint(sc)
    for j, it, b, a in before_after(sc):
        after_panic = a["oc"] == "Panic"
        forced_carry = it[0] == "carry" and it[1].get("f")
        # P2 inside this very command: a pre-existing object now holds a CR/LF alias of its former bytes
        swapped = forced_carry and any(pe is not None and pe[0] == "F" and e[0] == "F" and pe[3] not in ("!", "?") and e[3] not in ("!", "?")
                                       and alias_pair(bytes.fromhex(pe[3]), bytes.fromhex(e[3]))
                                       for ad_, e in a["objs"].items() for pe in [b["objs"].get(ad_)])
        for v in R.cas_check(a) + layout_check(a, sc.cfg):
            m = _re.search(r"(?:object|entry|directory of object) (\S+)", v)
            ad = m.group(1) if m else None
            klass = None
            if ad in taint[j] or ("not a regular file" in v and not fixed("P41")):
                klass = "relink"
            elif "does not hash" in v and swapped and ad not in b["objs"] and a["objs"][ad][3] not in ("!", "?") and any(
                    (b["ws"].get(p) or ["-"])[0].startswith("L") and b["ws"][p][2] not in ("!", "?")
                    and alias_pair(bytes.fromhex(b["ws"][p][2]), bytes.fromhex(a["objs"][ad][3])) for p in it[2]):
                # ... and a target that is a symbolic link to it was committed afterwards to the address computed from the
                # former bytes (Props/C02.v stale_link_witness): a consequence of the alias swap, P2
                klass = "alias-object-swapped"
            if after_panic and "writable" in v:
                klass = "left-writable-after-panic"
            bad.append((j, v, klass))
        forced = it[0] in ("track", "carry") and it[1].get("f")
        for ad, e in a["objs"].items():
            pe = b["objs"].get(ad)
            if pe is None:
                continue
            if pe[0] == "F" and e[0] == "F" and pe[3] != e[3]:
                x, y = bytes.fromhex(pe[3]), bytes.fromhex(e[3])
                klass = "relink" if ad in taint[j] else ("alias-object-swapped" if forced and alias_pair(x, y) else None)
                bad.append((j, "bytes of object %s changed from %s to %s" % (ad, pe[3][:40], e[3][:40]), klass))
            elif not forced and b.get("ino", {}).get(ad) != a.get("ino", {}).get(ad):
                bad.append((j, "object %s was replaced (inode %s -> %s) by an unforced %s" % (ad, b["ino"].get(ad), a["ino"].get(ad), it[0]),
                            "relink" if ad in taint[j] else None))
        # the documented digest: a NEW path committed by track sits at <algo>/<hash of its bytes, CR and LF
        # removed first when it is treated as text: text mode, or auto mode and no NUL among the first 8000 bytes>
        if it[0] == "track" and not it[1].get("nc") and a["oc"] == "Ok" and not taint[j]:
            tmode = it[1].get("t") or sc.cfg["tob"]
            for p in it[2]:
                e = b["ws"].get(p)
                if p in b["recs"] or e is None or e[0] != "F" or e[2] in ("!", "?"):
                    continue
                c = bytes.fromhex(e[2])
                text = tmode == "text" or (tmode == "auto" and b"\0" not in c[:8000])
                want = "%s/%s/%s" % (sc.cfg["algo"], R.ref_hash(sc.cfg["algo"], R.strip_crlf(c) if text else c), R.ext_of(p))
                if p in a["recs"] and want not in a["objs"]:
                    bad.append((j, "the content of %s (%d bytes, %s) is not at the documented address %s after track" % (
                        p, len(c), "text" if text else "binary", want), None))
        if it[0] in ("W", "T", "D", "U") and set(a["objs"]) != set(b["objs"]):
            bad.append((j, "a user action changed the set of cache objects", None))
        # deduplication: one object per (algorithm, extension, bytes)
        seen = {}
        for ad, e in a["objs"].items():
            if e[0] != "F" or e[3] in ("!", "?"):
                continue
            key = (ad.split("/", 2)[0], ad.split("/", 2)[2], e[3])
            seen.setdefault(key, []).append(ad)
        for key, ads in seen.items():
            # the same bytes may legitimately sit at the text AND at the binary address: more is a duplicate
            if len(ads) > 2:
                bad.append((j, "identical content stored %d times: %s" % (len(ads), ", ".join(a_[:14] for a_ in ads)), None))
        if after_panic:
            break
    return bad


METHOD_LETTER = {"copy": "C", "hardlink": "H", "symlink": "S", "reflink": "R"}


def kind_ok(o, p, method, addr):
    """does the workspace entry of p in observation o have the kind method promises, w.r.t. address addr?
    returns None or a description of what is wrong (lstat kind, mode, inode, link target)"""
    e = o["ws"].get(p)
    if e is None:
        return "no workspace entry"
    kind, w = e[0], e[1]
    if method in ("copy", "reflink"):
        if kind != "F":
            return "expected an independent regular file, found %s" % kind[:16]
        if w != "1":
            return "the copy is not user-writable"
        if o["wino"].get(p) in set(o["ino"].values()):
            return "the copy shares its inode with a cache object"
    elif method == "hardlink":
        if kind != "H" + addr:
            return "expected a hard link to %s, found %s" % (addr[:14], kind[:16])
        if w != "0":
            return "the hard link is writable"
        if o["wino"].get(p) != o["ino"].get(addr):
            return "inode differs from the object's"
    elif method == "symlink":
        if kind != "L" + addr:
            return "expected a symlink to %s, found %s" % (addr[:14], kind[:16])
    return None


def c17_oracle(sc):
    """C17: after `recheck` (path deleted before, or --force, or another method requested for an entry the
    user has not touched) and after a `track` that names a method, the workspace entry is of the kind of
    the method in force (requested, else recorded, else configured default), reads the committed bytes,
    and the method recorded afterwards is the one in force; a plain recheck uses the recorded method;
    editing a copy changes no cache object."""
    bad = []
    ex = Expect()
    taint = relink_taint(sc)
    dirty = {}          # path -> the user touched the entry since xvc last materialised it
    for j, it, b, a in before_after(sc):
        if a["oc"] == "Panic":
            break
        k = it[0]
        if k in ("W", "T", "D", "U"):
            dirty[it[1]] = True
            # editing a copy (or anything else the user may do) changes no cache object
            if k == "T" and (b["ws"].get(it[1]) or ["-"])[0] == "F":
                for ad, e in a["objs"].items():
                    if b["objs"].get(ad) != e:
                        bad.append((j, "editing the copy %s changed cache object %s" % (it[1], ad[:14]), "relink" if ad in taint[j] else None))
            continue
        ex.update(it, b, a)
        for p in it[2]:
            rb, ra = b["recs"].get(p), a["recs"].get(p)
            if ra is None:
                continue
            ad = addr_of(ra, p)
            want = ex.exp.get(p)
            if k == "recheck":
                if rb is None or a["oc"] != "Ok":
                    continue
                m = it[1].get("m") or rb[1]
                absent = p not in b["ws"]
                acted = absent or it[1].get("f") or (m != rb[1] and not dirty.get(p) and p in b["ws"])
                if not acted or ad not in b["objs"]:
                    continue
                what = kind_ok(a, p, m, ad)
                if what is None and want is not None and ws_bytes(a, p) != want and not alias_pair(ws_bytes(a, p), want):
                    what = "reads %s, committed were %s" % (R.short((ws_bytes(a, p) or b"").hex()), R.short(want.hex()))
                if what is None and ra[1] != m:
                    what = "method in force %s, recorded afterwards %s" % (m, ra[1])
                lst = a.get("list")
                if what is None and lst is not None and p in lst and lst[p][1] and lst[p][1] != METHOD_LETTER.get(m):
                    what = "xvc file list shows recheck method %s, in force was %s" % (lst[p][1], m)
                if what:
                    bad.append((j, "recheck %s of %s: %s" % (it[1].get("m") or "(stored %s)" % rb[1], p, what),
                                "relink" if ad in taint[j] else None))
                else:
                    dirty[p] = False
            elif k == "track":
                if a["oc"] != "Ok" or it[1].get("nc") or ad not in a["objs"]:
                    continue
                m = it[1].get("m") or (ra[1] if rb is not None and rb[0] == ra[0] and rb[1] == ra[1] else sc.cfg["method"])
                if p not in b["ws"]:
                    continue
                newly = rb is None or rb[0] != ra[0]
                if not newly and not it[1].get("m"):
                    continue          # nothing to commit and no method named: nothing is promised
                if not newly and fixed("P43") and rb[1] == m and kind_ok(b, p, rb[1], ad) is not None:
                    # the method named is the one recorded already and the entry was not of that kind before the command (the user
                    # replaced it): like recheck, track goes by the records: nothing is promised
                    continue
                what = kind_ok(a, p, m, ad)
                if what is None and ra[1] != m:
                    what = "method in force %s, recorded afterwards %s" % (m, ra[1])
                if what:
                    klass = None
                    if ad in taint[j]:
                        klass = "relink"
                    elif not newly and not fixed("P43"):
                        klass = "track-method-unchanged-content"
                    elif it[1].get("f") and not fixed("P42") and sum(1 for q in set(a["recs"]) if addr_of(a["recs"][q], q) == ad) > 1:
                        klass = "forced-duplicate"
                    elif it[1].get("f") and not newly and m == "hardlink" and kind_ok(b, p, "hardlink", ad) is None and any(
                            q != p and q in a["recs"] and addr_of(a["recs"][q], q) == ad and (q not in b["recs"] or b["recs"][q][0] != a["recs"][q][0])
                            for q in it[2]):
                        # P42c: track --force carries in only the targets whose content changed; one of them has the address of
                        # this UNCHANGED target (a proper hard link before the command) and replaced the object
                        klass = "forced-replace-detaches-unchanged-target"
                    bad.append((j, "track %s of %s: %s" % (it[1].get("m") or "(default %s)" % m, p, what), klass))
                else:
                    dirty[p] = False
            elif k == "carry":
                # carry-in rechecks with the STORED method
                if a["oc"] != "Ok" or rb is None or ad not in a["objs"] or p not in b["ws"]:
                    continue
                if rb[0] == ra[0] and not it[1].get("f"):
                    continue
                if (b["ws"].get(p) or ["-"])[0] != "F":
                    continue          # a link has no content of its own to carry in (P27)
                what = kind_ok(a, p, rb[1], ad)
                if what:
                    klass = None
                    if ad in taint[j]:
                        klass = "relink"
                    elif it[1].get("f") and not fixed("P42") and sum(1 for q in set(a["recs"]) if addr_of(a["recs"][q], q) == ad) > 1:
                        klass = "forced-duplicate"
                    bad.append((j, "carry-in of %s (stored method %s): %s" % (p, rb[1], what), klass))
                else:
                    dirty[p] = False
        # a forced commit of a duplicate replaces the object other paths are linked to
        if k in ("track", "carry") and it[1].get("f"):
            for q, rq in a["recs"].items():
                if q in it[2] or q not in a["ws"] or q not in b["ws"]:
                    continue
                adq = addr_of(rq, q)
                if rq[1] == "hardlink" and b["ws"][q][0] == "H" + str(adq) and a["ws"][q][0] != b["ws"][q][0]:
                    # what --force is documented to do ("removes the file in cache and re-adds it") gives the object a new
                    # inode; a path OUTSIDE the command's targets that was a hard link to the old one keeps its bytes but is
                    # no longer linked (P42b; until the repair of P42 is in the tree it shares P42's class)
                    bad.append((j, "%s --force of another path unlinked the hard link %s from its object" % (k, q),
                                "forced-replace-detaches-hardlink" if fixed("P42") else "forced-duplicate"))
    return bad


# =====================================================================================================
# generators
# =====================================================================================================
def gen_opts(rng, kind, p_force=0.2):
    if kind == "track":
        return {"m": rng.choice(R.METHODS) if rng.random() < 0.5 else None, "t": rng.choice(R.TOBS) if rng.random() < 0.15 else None,
                "nc": rng.random() < 0.06, "f": rng.random() < p_force / 2}
    if kind == "carry":
        return {"t": rng.choice(R.TOBS) if rng.random() < 0.12 else None, "f": rng.random() < p_force}
    return {"m": rng.choice(R.METHODS) if rng.random() < 0.6 else None, "f": rng.random() < p_force}


def gen_cfg(rng, idx):
    """all 4 algorithms, 4 default methods and 3 text-or-binary modes are cycled through"""
    return {"algo": list(R.ALGOS)[idx % 4], "method": R.METHODS[(idx // 4) % 4] if rng.random() < 0.5 else "copy",
            "tob": R.TOBS[(idx // 2) % 3] if rng.random() < 0.4 else "auto"}


def gen_c01(rng, idx):
    """commit, then histories of later commands, then probes: delete / damage + recheck with each method"""
    cfg = gen_cfg(rng, idx)
    paths = rng.sample(R.PATHS, rng.randint(1, 3))
    pool = rng.sample(R.CONTENTS, rng.randint(2, 4))
    if rng.random() < 0.35:      # files differing only in line endings, duplicates
        pool += [b"a\nb\n", b"a\r\nb\r\n"]
    items = [("W", p, rng.choice(pool)) for p in paths]
    if rng.random() < 0.25:
        items.append(("track", {"nc": True}, list(paths)))
        items.append(("carry", {"f": rng.random() < 0.5}, list(paths)))
    else:
        items.append(("track", gen_opts(rng, "track", 0.05), list(paths) if rng.random() < 0.7 else [paths[0]]))
    for _ in range(rng.randint(1, 5)):
        p = rng.choice(paths)
        x = rng.random()
        if x < 0.3:
            items.append(("W", p, rng.choice(pool)))
            if rng.random() < 0.6:
                items.append((rng.choice(["track", "carry"]), gen_opts(rng, rng.choice(["track", "carry"]), 0.15), [p]))
                items[-1] = (items[-1][0], gen_opts(rng, items[-1][0], 0.15), [p])
        elif x < 0.4:
            items.append(("U", p))
        elif x < 0.5:
            items.append(("T", p, rng.choice(pool)))
        elif x < 0.72:
            items.append(("recheck", gen_opts(rng, "recheck", 0.3), [p] if rng.random() < 0.6 else list(paths)))
        elif x < 0.8:
            # the workspace copy is gone when a commit command meets the path (the code stops with a length
            # assertion; whatever it does instead, the committed content must survive: the probes follow)
            items.append(("D", p))
            items.append(("carry", {"f": rng.random() < 0.5}, [p] if rng.random() < 0.7 else list(paths)))
        else:
            items.append(("track", gen_opts(rng, "track", 0.1), list(paths)))
    for p in paths:              # the probes
        if rng.random() < 0.5:
            items.append(("D", p))
            items.append(("recheck", {"m": rng.choice(R.METHODS + [None]), "f": rng.random() < 0.3}, [p]))
        else:
            items.append(("W", p, b"damaged " + rng.choice(pool)[:20]))
            items.append(("recheck", {"m": rng.choice(R.METHODS + [None]), "f": True}, [p]))
    return cfg, items


def gen_c17(rng, idx):
    """chains of method changes on one path (copy -> symlink -> hardlink -> copy ...) interleaved with
    edits, carry-in, deletion, recheck with and without a method; a second path with equal content"""
    cfg = gen_cfg(rng, idx)
    paths = rng.sample(R.PATHS, rng.randint(1, 2))
    pool = rng.sample(R.CONTENTS, rng.randint(2, 3))
    p = paths[0]
    items = [("W", q, pool[0] if rng.random() < 0.6 else rng.choice(pool)) for q in paths]
    items.append(("track", {"m": rng.choice(R.METHODS) if rng.random() < 0.6 else None, "f": rng.random() < 0.06}, list(paths)))
    chain = list(R.METHODS)
    rng.shuffle(chain)
    chain = chain + [chain[0]]
    for m in chain[:rng.randint(2, 5)]:
        x = rng.random()
        if x < 0.25:
            items.append(("D", p))
        elif x < 0.4:
            items.append(("T", p, rng.choice(pool)))             # edit in place (refused on a hard link)
            if rng.random() < 0.6:
                items.append(("carry", {"f": rng.random() < 0.2}, [p]))
        elif x < 0.5:
            items.append(("W", p, rng.choice(pool)))
            items.append((rng.choice(["carry", "track"]), {}, [p]))
        elif x < 0.56:
            if rng.random() < 0.6:
                items.append(("U", p))
            items.append(("track", {"m": rng.choice(R.METHODS)}, [p] if rng.random() < 0.7 else list(paths)))
        items.append(("recheck", {"m": m, "f": rng.random() < 0.25}, [p] if rng.random() < 0.7 else list(paths)))
        if rng.random() < 0.4:
            items.append(("D", p))
            items.append(("recheck", {}, [p]))                   # plain: the stored method
    return cfg, items


DUP_PATHS = ["a.txt", "b.txt", "c.txt", "d/a.txt", "d/e/f.txt", "sp ace.txt", "ü.txt", "x.dat", "a.dat"]


def gen_dups(rng, idx):
    """(generated only when the repair of P44 / P42 is in the tree: before it these inputs are the excluded class)
    3-6 paths with EQUAL content -- mostly one extension, so one cache path; some with another extension, so another
    file in the same cache directory; sometimes a CR/LF alias among them -- committed by ONE track command with a link
    method, with and without --force, then carried in / re-tracked / re-committed under another text-or-binary mode
    together, and restored"""
    cfg = {"algo": list(R.ALGOS)[idx % 4], "method": rng.choice(["hardlink", "symlink", "copy", "hardlink"]), "tob": "auto" if rng.random() < 0.8 else rng.choice(R.TOBS)}
    paths = rng.sample(DUP_PATHS[:7], rng.randint(3, 5)) + (rng.sample(DUP_PATHS[7:], rng.randint(0, 2)) if rng.random() < 0.5 else [])
    c0 = rng.choice([b"same", b"hello\r\n", b"a\nb\n", b"", b"\0bin\n", b"x" * 7999 + b"\0"])
    alias = {b"a\nb\n": b"a\r\nb\r\n", b"hello\r\n": b"hello"}.get(c0)
    items = []
    for p in paths:
        items.append(("W", p, alias if (alias is not None and rng.random() < 0.15) else c0))
    link = lambda: rng.choice(["hardlink", "symlink", "hardlink", "symlink", "copy", None])
    items.append(("track", {"m": link(), "f": rng.random() < 0.35}, list(paths)))
    for _ in range(rng.randint(1, 3)):
        x = rng.random()
        some = rng.sample(paths, rng.randint(2, len(paths)))
        if x < 0.3:
            items.append(("carry", {"f": rng.random() < 0.7}, some))
        elif x < 0.5:
            for p in some[:2]:
                items.append(("W", p, c0))
            items.append(("track", {"m": link(), "f": rng.random() < 0.6}, some))
        elif x < 0.65:
            for p in some[:2]:
                items.append(("U", p))
            items.append(("track", {"t": rng.choice(["binary", "text"]), "m": link()}, some))
        elif x < 0.8:
            items.append(("recheck", {"m": rng.choice(R.METHODS), "f": rng.random() < 0.4}, some))
        else:
            c1 = rng.choice([b"other", b"other\n", c0 + b"+"])
            for p in some:
                items.append(("W", p, c1))
            items.append((rng.choice(["carry", "track"]), {"f": rng.random() < 0.3}, some))
    for p in rng.sample(paths, min(2, len(paths))):
        items.append(("D", p))
        items.append(("recheck", {"m": rng.choice(R.METHODS + [None])}, [p]))
    return cfg, items


# =====================================================================================================
# the common driver of C01 / C02 / C17
# =====================================================================================================
def execute_listing(xvc, sc, list_kinds, attempts=2):
    """runs the history on the real binary; a run that could not be completed or observed (time-out on
    an overloaded machine, scratch directory trouble) is repeated once and then set aside: sc.robs = None"""
    for k in range(attempts):
        rr = None
        try:
            rr = R.RealRun(xvc, sc.cfg, parallel=sc.parallel)
            rr.list_kinds = list_kinds
            sc.robs, sc.eff = rr.run(sc.items)
            sc.log = rr.log
            return sc
        except Exception as e:      # noqa: BLE001
            sc.robs, sc.eff, sc.log = None, None, ["run set aside: %r" % (e,)]
        finally:
            if rr is not None:
                try:
                    rr.close()
                except Exception:   # noqa: BLE001
                    pass
    return sc


def drive(chk, replay, prop, gen, oracle, nontrivial, n_quick, n_thorough, rule, theorems, list_kinds=(), threads=12):
    """proof audit; corpus first, then generated histories on the real binary (alternating parallel and
    --no-parallel); the property's oracle on every real observation; correspondence with the extracted
    model item by item; shrinking; classification against the open findings"""
    chk.cov["trusted_base"] = REPO_TRUSTED
    chk.proof()
    model = C.ensure_model("Repo", ["Base", "Repo"])
    xvc = C.ensure_xvc()
    # the switches of Repo/Fix.v: probed on the binary under test, never assumed
    try:
        fx, det = R.current_fixes(xvc, details=True)
    except R.ProbeError as e:
        chk.fail("correspondence", "the probes that decide which repairs (P44/P42, P41) the binary contains are inconclusive: %s" % e,
                 {"theorem_or_correspondence": "model switches fixed_P44 / fixed_P41 of Repo/Fix.v vs the binary (vlib/repo.py:probe_fixes)"},
                 name="probe", has_input=False)
        return chk
    chk.cov["model_switches"] = {"fixed_P44": fx[0] == "1", "fixed_P41": fx[1] == "1", "fixed_P49": fx[2] == "1", "fixed_P43": fx[3] == "1", "probes": det,
                                 "derived_by": "vlib/repo.py:probe_fixes on the binary built from the tree under test"}
    scs = []
    if replay:
        scs = [from_replay(replay)]
    else:
        cdir = os.path.join(C.ROOT, "corpus", prop)
        for f in sorted(os.listdir(cdir)) if os.path.isdir(cdir) else []:
            if not f.endswith(".json"):
                continue
            rep = json.load(open(os.path.join(cdir, f)))
            for par in ([rep["parallel"]] if "parallel" in rep else [False, True]):
                scs.append(from_replay(dict(rep, parallel=par), len(scs)))
        ncorpus = len(scs)
        n = n_quick if chk.tier == "quick" else n_thorough
        ndup = 0
        for i in range(n):
            if fixed("P44") and i % 5 == 3:
                # formerly excluded inputs: equal content at several targets of one command, mostly in parallel mode
                cfg, items = gen_dups(chk.rng, i)
                ndup += 1
                scs.append(Scenario(len(scs), cfg, items, parallel=(ndup % 3 != 0)))
                scs[-1].dups = True
                continue
            cfg, items = gen(chk.rng, i)
            scs.append(Scenario(len(scs), cfg, items, parallel=(i % 2 == 1)))
    with ThreadPoolExecutor(threads) as ex:
        list(ex.map(lambda s: execute_listing(xvc, s, list_kinds), scs))
    aside = [sc for sc in scs if sc.robs is None]
    scs = [sc for sc in scs if sc.robs is not None]
    chk.cov["histories_set_aside"] = len(aside)
    if len(aside) > max(3, len(scs) // 4):
        chk.fail("correspondence", "%d of %d histories could not be executed: %s" % (len(aside), len(aside) + len(scs), aside[0].log),
                 {"theorem_or_correspondence": "scenario runner"}, name="runner", has_input=False)
    dist = {"histories": len(scs), "duplicate_target_histories": sum(1 for sc in scs if getattr(sc, "dups", False)), "items": 0, "track": 0, "carry": 0, "recheck": 0, "user": 0, "panics": 0, "errors": 0,
            "parallel": 0, "algo": {}, "default_method": {}, "tob": {}, "methods_requested": {}, "forced": 0}
    reported = 0
    for sc in scs:
        chk.count(json.dumps(to_replay(sc), sort_keys=True), nontrivial(sc))
        dist["parallel"] += bool(sc.parallel)
        for key, fld in (("algo", "algo"), ("default_method", "method"), ("tob", "tob")):
            dist[key][sc.cfg[fld]] = dist[key].get(sc.cfg[fld], 0) + 1
        for it, o in zip(sc.eff, sc.robs):
            dist["items"] += 1
            dist[it[0] if it[0] in ("track", "carry", "recheck") else "user"] += 1
            dist["panics"] += o["oc"] == "Panic"; dist["errors"] += o["oc"] == "Err"
            if it[0] in ("track", "recheck") and it[1].get("m"):
                dist["methods_requested"][it[1]["m"]] = dist["methods_requested"].get(it[1]["m"], 0) + 1
            if it[0] in ("track", "carry", "recheck") and it[1].get("f"):
                dist["forced"] += 1
        bad = oracle(sc)
        ri = race_index(sc)
        if ri is not None:
            bad = [(j, w, k if (k is not None or j < ri) else "parallel-duplicate-race") for (j, w, k) in bad]
        if bad:
            unknown = [x for x in bad if x[2] is None]
            j, what, klass = (unknown or bad)[0]
            s2 = sc
            if unknown and not replay and reported < 3:
                s2 = shrink_scenario_with(xvc, sc, lambda s: [x for x in oracle(s) if x[2] is None], list_kinds)
                b2 = [x for x in oracle(s2) if x[2] is None]
                if b2:
                    j, what, klass = b2[0]
            if klass is not None or reported < 3:
                chk.fail("oracle", what, dict(to_replay(s2), failing_item=j, kind="impl-history"), name="oracle", klass=klass)
            reported += klass is None
            if unknown:
                continue
        mm = check_correspondence(chk, model, sc)
        if mm and reported < 3:
            chk.fail("correspondence", "model and implementation differ at item %d: %s" % (mm["item"], "; ".join(mm["diffs"][:3])),
                     dict(to_replay(sc), failing_item=mm["item"], diffs=mm["diffs"],
                          theorem_or_correspondence=theorems + "; correspondence repomodel vs xvc"),
                     name="corr", klass=mm["klass"], has_input=False)
            reported += mm["klass"] is None
        elif not mm:
            chk.cov["traces_validated_against_impl"] += 1
    for sc in scs[:1] + scs[-2:]:
        chk.sample(to_replay(sc))
    chk.cov["distribution"] = dist
    chk.cov["rule"] = rule + ((" With the repair of P44 / P42 found in the binary every fifth generated history is of the formerly excluded kind: "
                              "3-7 paths with EQUAL content (one cache path; some with another extension: one cache directory; sometimes a CR/LF alias) "
                              "committed by ONE track command with a link method, with and without --force, two thirds of them in parallel mode, then "
                              "carried in / re-tracked / re-committed under another text-or-binary mode together, and restored.") if fixed("P44") else "")
    return chk


def shrink_scenario_with(xvc, sc, fails, list_kinds):
    def still(items):
        s2 = Scenario(sc.idx, sc.cfg, items, sc.parallel)
        try:
            execute_listing(xvc, s2, list_kinds)
            return s2.robs is not None and bool(fails(s2))
        except Exception:
            return False
    items = C.shrink_list(sc.items, still, max_rounds=40)
    s2 = Scenario(sc.idx, sc.cfg, items, sc.parallel)
    execute_listing(xvc, s2, list_kinds)
    return s2 if s2.robs is not None else sc
