"""Common driver of the file-repository checks: runs generated histories on the real binary and on
the extracted model M-REPO, applies the property's oracles to every real observation, compares model
and implementation item by item, shrinks and classifies what fails."""
import json, os, itertools
from concurrent.futures import ThreadPoolExecutor
from . import common as C, repo as R

REPO_TRUSTED = [
    "Coq 8.16.1 kernel, coqc; vm_compute in Examples only; no native_compute",
    "axioms: none (Print Assumptions: Closed under the global context)",
    "extraction: ExtrOcamlBasic only; ocamlfind ocamlopt 4.13.1; coq/extract/common.ml + repo_driver.ml (parsing/printing)",
    "correspondence: vlib/repo.py (scenario runner on the hook-instrumented xvc binary built from /repo, observer of workspace / cache / stores, canonicaliser), vlib/repocheck.py; tools/blake3_ref.py and Python hashlib as independent hash implementations",
    "modelled, not verified: file/src/{track,carry_in,recheck}/mod.rs, file/src/common/{mod,compare}.rs (move_to_cache, recheck_from_cache, diff_*), core/src/types/{xvcpath,diff}.rs, xvcdigest (text/binary normalisation) as Repo/Model.v; hash functions are ideal (digest = algorithm + normalised content); the five component stores are seen through their loaded maps (justified by C08); target resolution is given (explicit file targets); .gitignore handling is not in this model",
    "the visiting order of the targets of one command (HashMap iteration, rayon) is a parameter of the model: the order logged by the implementation is used, permutations are tried on a mismatch",
    "environment assumptions: edits_visible (every user write gets a distinct explicit mtime); POSIX rename/link/symlink semantics; interleavings INSIDE one carry_in closure in parallel mode are not modelled (explored only by the parallel runs)",
]


def contents_before(robs, j, p):
    """bytes of workspace path p in the real observation before item j (None if absent)"""
    if j == 0:
        return None
    e = robs[j - 1]["ws"].get(p)
    return None if e is None or e[2] == "!" else bytes.fromhex(e[2])


def dup_targets(robs, j, it, cfg):
    """do two targets of item `it` have the same cache address (same extension and same bytes, or
    same CR/LF-normal form) in the workspace before the item?"""
    if it[0] not in ("track", "carry") or len(it[2]) < 2 or j == 0:
        return False
    seen = {}
    for p in it[2]:
        b = contents_before(robs, j, p)
        if b is None:
            continue
        for key in ((R.ext_of(p), b), (R.ext_of(p), b"T" + R.strip_crlf(b))):
            if key in seen and seen[key] != p:
                return True
            seen[key] = p
    return False


def alias_present(robs, j):
    """two distinct byte strings with the same CR/LF-normal form among workspace files and cache
    objects up to item j (the P2 class)"""
    forms = {}
    for o in robs[:j + 1]:
        for sec, idx in (("ws", 2), ("objs", 3)):
            for k, v in o[sec].items():
                if v[idx] in ("!", "?"):
                    continue
                b = bytes.fromhex(v[idx])
                forms.setdefault(R.strip_crlf(b), set()).add(b)
    return any(len(s) > 1 for s in forms.values())


class Scenario:
    def __init__(self, idx, cfg, items, parallel):
        self.idx, self.cfg, self.items, self.parallel = idx, cfg, items, parallel
        self.robs = self.eff = self.log = None


def execute(xvc, sc):
    rr = R.RealRun(xvc, sc.cfg, parallel=sc.parallel)
    try:
        sc.robs, sc.eff = rr.run(sc.items)
        sc.log = rr.log
    finally:
        rr.close()
    return sc


def run_scenarios(xvc, scs, threads=12):
    with ThreadPoolExecutor(threads) as ex:
        return list(ex.map(lambda s: execute(xvc, s), scs))


def to_replay(sc, j=None):
    return {"cfg": sc.cfg, "parallel": sc.parallel,
            "items": [R.item_to_json(i) for i in (sc.items if j is None else sc.items[:j + 1])]}


def from_replay(rep, idx=0):
    return Scenario(idx, rep["cfg"], [R.item_from_json(i) for i in rep["items"]], rep.get("parallel", False))


def shrink_scenario(xvc, sc, fails):
    """drops items while fails(scenario) still returns a truthy value"""
    def still(items):
        s2 = Scenario(sc.idx, sc.cfg, items, sc.parallel)
        try:
            execute(xvc, s2)
            return bool(fails(s2))
        except Exception:
            return False
    items = C.shrink_list(sc.items, still, max_rounds=40)
    s2 = Scenario(sc.idx, sc.cfg, items, sc.parallel)
    execute(xvc, s2)
    return s2


def check_correspondence(chk, model, sc):
    """returns None or a dict describing the disagreement (with the known-class label if any)"""
    mm = R.correspond(model, sc.cfg, sc.eff, sc.robs)
    if mm is None:
        return None
    j, diffs, tries = mm
    it = sc.eff[j] if j < len(sc.eff) else None
    klass = None
    if sc.parallel and it is not None and dup_targets(sc.robs, j, it, sc.cfg):
        klass = "parallel-carry-race-on-equal-addresses"
    return {"item": j, "diffs": diffs[:8], "tries": tries, "klass": klass}
