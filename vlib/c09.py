"""C09 — ignore rules: the glob part of the tie.
Correspondence globmodel (extracted Glob/Match.v, Glob/Pattern.v, Walker/Model.v check_str) vs globdrv
(the real fast_glob::glob_match, xvc_walker::Pattern::new, content_to_patterns, IgnoreRules::check)
on generated cases.  Line formats: see coq/extract/glob_driver.ml / harness/src/bin/globdrv.rs."""
from . import common as C

GLOB_TIE = "globmodel vs globdrv (fast_glob::glob_match / Pattern::new / IgnoreRules::check)"

# ---- the small world all generators draw from ------------------------------------------------------
_EXTS = ["txt", "tmp"]
_DIRS = ["a", "b", "c", "ab", "a1"]
_FILES = ["a", "b", "c", "ab", "a1", "1", "foo", ".a", "b.c", "a.txt", "b.txt", "1.txt", "foo.txt",
          "c.tmp", "foo.tmp", "a.b.tmp"]
_CLASSES = ["[a-c]", "[abc]", "[a-c1]", "[!a]", "[^b]", "[!a-b]", "[1f]", "[.a]", "[a-]", "[]a]", "[\\]a]", "[a\\-c]"]
_P_DIRS = ["", "", "a", "a/b", "a/b/", "/a", "b", "a[1]"]
# content_to_patterns builds its source as /r + dir: an absolute dir would leave the root
_C_DIRS = ["", "", "a", "a/b", "a/b/", "b", "a[1]"]
_K_DIRS = ["", "a", "b", "a/b", "a[1]"]
_NONASCII = ["\u00e9", "caf\u00e9", "a/\u00e9", "\u00e9/", "!\u00e9", "\u00e9 ", "\u00e9\t", "*.\u00e9", "/\u00e9", "\u00e9\\ ",
             "\u00e9a", "\u00e9.txt", "\u00e9/a", "a\u00e9b/", "!\u00e9a", "\u00e9*", "\\!\u00e9", "a/\u00e9/b", "\u00e9\u00e9",
             "donn\u00e9es/\u00e9", "\u65e5\u672c", "/\u65e5\u672c", "\u65e5\u672c/", "!\u65e5\u672c", "a/\U0001d11e", "\U0001d11e", "*\u00e9", "?\u672c", "[a\u00e9]",
             # Unicode white space (str::trim_end / str::trim strip it): NBSP, NEL, ideographic space, thin space, line separator
             "a\u00a0", "a \u3000", "\u00a0", "\u00e9\u2009", "\u0085a", "a\u2028", "\u00e9\u00a0 ", "a\u00a0/", "a/\u3000", "\u3000\u00a0 ", "a\\ \u00a0",
             "a\u1680", "a\u205f", "a\u202f", "a\u200a", "a\u200b", "a\u00a1", "a\u0084"]
# names with multi-byte characters (2, 3 and 4 bytes in UTF-8); fast-glob and the model both work on BYTES
_U_NAMES = ["\u00e9", "caf\u00e9", "\u00e9a", "donn\u00e9es", "\u65e5\u672c", "\u65e5\u672c.txt", "a\u00e9b", "\U0001d11e", "\u00e9.tmp", "\u00fc\u00e9"]


def _nbytes(ch):
    return len(ch.encode("utf-8"))


def ends_multibyte(s):
    return bool(s) and ord(s[-1]) > 127


def _hx(s):
    return s.encode("utf-8").hex() if s else "-"


def _unhx(f):
    return "" if f == "-" else bytes.fromhex(f).decode("utf-8")


def _seg(rng, name=None):
    """one segment of a glob; when `name` is given the segment is built to match that name (mostly)"""
    n = name if name is not None else (rng.choice(_U_NAMES) if rng.random() < 0.1 else rng.choice(_FILES))
    k = rng.random()
    if ord(max(n)) > 127 and k >= 0.42 and rng.random() < 0.5:
        # byte-level variants: one '?' per BYTE of a character, a class that holds one byte of it, '*' before its last byte
        i = rng.randrange(len(n))
        v = rng.random()
        if v < 0.4:
            return n[:i] + "?" * _nbytes(n[i]) + n[i + 1:]
        if v < 0.6:
            return n[:i] + "".join("[%s]" % n[i] for _ in range(_nbytes(n[i]))) + n[i + 1:]
        if v < 0.8:
            return n[:i] + "[!a]" * _nbytes(n[i]) + n[i + 1:]
        return n[:i] + "*" + n[i + 1:]
    if k < 0.42:
        return n
    if k < 0.54:
        return "*." + (n.rsplit(".", 1)[1] if "." in n[1:] and name is not None else rng.choice(_EXTS))
    if k < 0.60:
        return "*"
    if k < 0.66:
        return n[0] + "*"
    if k < 0.70:
        return "*" + n[-1]
    if k < 0.77:
        i = rng.randrange(len(n))
        return n[:i] + "?" + n[i + 1:]
    if k < 0.86:
        return rng.choice(_CLASSES) + n[1:]
    if k < 0.89:
        return "?" * len(n)
    if k < 0.92:
        i = rng.randrange(len(n))
        return n[:i] + "\\" + n[i:]          # escaped ordinary character (\a \b \n \r \t are special)
    if k < 0.95:
        return "\\*" + n[1:]
    if k < 0.97:
        return n + "\\ "
    return n[0] + "*" + n[-1] + "*"


def _rule_line(rng, hint=None):
    """one line of an ignore file.  hint: path components the line should (mostly) be about"""
    k = rng.random()
    if k < 0.04:
        return "#" + rng.choice(["", " comment", "a.txt", "!a"])
    if k < 0.07:
        return rng.choice(["", " ", "  ", "\t"])
    if hint:
        last = hint[-1]
        prev = hint[-2] if len(hint) > 1 else rng.choice(_DIRS)
    else:
        last, prev = rng.choice(_FILES), rng.choice(_DIRS)
    s = rng.random()
    if s < 0.34:
        body = _seg(rng, last)
    elif s < 0.44:
        body = _seg(rng, rng.choice([last, prev])) + "/"
    elif s < 0.54:
        body = "/" + _seg(rng, rng.choice([last, hint[0] if hint else prev]))
    elif s < 0.66:
        body = _seg(rng, prev) + "/" + _seg(rng, last)
    elif s < 0.74:
        body = "**/" + _seg(rng, last)
    elif s < 0.82:
        body = _seg(rng, hint[0] if hint else prev) + "/**/" + _seg(rng, last)
    elif s < 0.87:
        body = _seg(rng, prev) + "/**"
    elif s < 0.91:
        body = "/" + _seg(rng, prev) + "/" + _seg(rng, last) + "/"
    elif s < 0.94:
        body = rng.choice(["*", "**", "/", "/*", "*/", "**/", "/**", "?", "*.*", ".*"])
    else:
        body = _seg(rng, prev) + "/" + _seg(rng) + "/" + _seg(rng, last)
    p = rng.random()
    if p < 0.14:
        body = "!" + body
    elif p < 0.18:
        body = "\\!" + body
    elif p < 0.20:
        body = "\\#" + body
    elif p < 0.21:
        body = "!!" + body
    t = rng.random()
    if t > 0.97:
        body += rng.choice(["/", "//", "/ ", "//a"])       # a slash that is last only after the final slash is cut
    if t < 0.08:
        body += rng.choice([" ", "  ", "\t", " \t "])
    elif t < 0.11:
        body += "\\ "
    elif t < 0.12:
        body += "\\  "
    return body


def _comps(rng, maxdepth=5):
    d = rng.randint(1, maxdepth)
    c = [rng.choice(_DIRS) for _ in range(d - 1)] + [rng.choice(_FILES)]
    if rng.random() < 0.22:                  # multi-byte names, somewhere on the path
        for _ in range(rng.randint(1, 2)):
            c[rng.randrange(len(c))] = rng.choice(_U_NAMES)
    return c


def _path(rng):
    s = "/".join(_comps(rng))
    if rng.random() < 0.8:
        s = "/" + s
    if rng.random() < 0.08:
        s += "/"
    return s


def _derived_glob(rng, comps):
    """a glob in the shapes Pattern::new produces, built from the path's own components"""
    n = len(comps)
    j = rng.randint(1, n)                    # the glob's body talks about the last j components
    body = [_seg(rng, c) for c in comps[n - j:]]
    if j > 2 and rng.random() < 0.3:         # a/**/b in the middle
        body = [body[0], "**", body[-1]]
    r = rng.random()
    if r < 0.15 and n - j > 0:               # dir-only: the body names a directory above the file
        j2 = rng.randint(1, n - 1)
        body = [_seg(rng, c) for c in comps[max(0, j2 - 2):j2]] + ["**"]
        j = n - max(0, j2 - 2)
    if rng.random() < 0.25:                  # near miss
        body[rng.randrange(len(body))] = _seg(rng)
    if rng.random() < 0.65:
        return "**/" + "/".join(body)
    k = rng.randint(0, n - j)
    pre = "".join("/" + c for c in comps[:k])
    return pre + "/**/" + "/".join(body)


_MALFORMED = [
    # unterminated class, '[' at the end
    "[a", "a[bc", "**/[a-", "[!a", "[^", "[", "a[", "**/a[", "[!", "**/[", "[a-c", "a[b/c]",
    # trailing backslash
    "a\\", "**/a\\", "[a\\", "\\", "[\\", "[a-\\", "**/\\",
    # ']' first in the class, dashes
    "[]a]", "[]]", "[!]a]", "[]-a]x", "[]", "[!]", "[a-]", "[a-]x", "[--a]", "[a-c-e]", "[-a]", "[c-a]", "[a-a]",
    "[!-]", "[a-\\]]", "[\\]-a]", "[/]", "a[/]b", "[!/]",
    # '**' glued to text, runs of stars
    "a**b", "a**", "**a", "a/**b", "a**/b", "/**a/b", "***", "****", "a/***/b", "***/a", "**/***", "*/**", "**/*",
    "**", "**/", "/**", "**/**", "/**/**/a", "a/**/**/**", "**/**/", "/**/", "a/**/", "**//a", "**/a/**/**", "/**/**",
    # leading '!'
    "!", "!!", "!a", "!!a", "!**/a", "!!**/a", "!*", "!**", "!/a", "!!!a", "![a]", "!?",
    # escapes
    "\\a", "\\b", "\\n", "\\\\", "\\[", "\\]", "[\\]]", "\\*", "\\?", "\\!a", "a\\/b", "\\**", "*\\*", "[\\a-\\c]",
    # '?', '*' and separators
    "a?b", "?", "??", "*", "a*b", "/", "//", "a//b", "?/", "/?", "*/", "/*", "*/*", "a/*/b", "a/?/b",
]
_MAL_PATHS = ["", "a", "/a", "a/b", "/a/b", "a//b", "/a//b", "//a", "a//", "/", "//", "a/", "a]", "]", "a[", "[a", "-",
              "a-", "!a", "!", "\\", "a\\", "\x08", "*", "a*b", "ab", "a/b/c", "/a/b/c", "aab", "a.b", "b", "c", "d", "^", "a/[/]b"]


def _random_soup(rng, alphabet, maxlen):
    return "".join(rng.choice(alphabet) for _ in range(rng.randint(0, maxlen)))


def gen_glob_cases(rng, n_valid, n_malformed):
    """`m` cases: n_valid well-formed (glob, path) pairs, then n_malformed from the malformed stream"""
    out = []
    for _ in range(n_valid):
        comps = _comps(rng)
        path = "/" + "/".join(comps)
        r = rng.random()
        if r < 0.55:
            glob = _derived_glob(rng, comps)
        elif r < 0.75:
            glob = "**/" + _rule_line(rng, comps).strip().lstrip("!/").rstrip("/")
        elif r < 0.85:
            glob = _rule_line(rng, comps)          # the raw line, not transformed
            if rng.random() < 0.5:
                path = path[1:]
        else:
            glob = "/" + "/".join([rng.choice(_DIRS) for _ in range(rng.randint(0, 2))] + ["**", _seg(rng)])
            path = _path(rng)
        if rng.random() < 0.05:
            path += "/"
        out.append("m %s %s" % (_hx(glob), _hx(path)))
    for i in range(n_malformed):
        r = rng.random()
        if r < 0.40:
            glob = rng.choice(_MALFORMED)
            q = rng.random()
            if q < 0.35:
                path = rng.choice(_MAL_PATHS)
            elif q < 0.5:
                path = glob                        # the glob text itself as the path
            elif q < 0.7:
                path = "".join(c for c in glob if c not in "[]!\\*?^") or "a"
            else:
                path = _path(rng)
        elif r < 0.55:
            glob = rng.choice(_MALFORMED) + rng.choice(["", "/", "/a", "a", "/**", "/*"])
            glob = rng.choice(["", "", "**/", "/a/**/", "a/", "!"]) + glob
            path = rng.choice(_MAL_PATHS + [_path(rng), _path(rng)])
        elif r < 0.62:
            glob, path = rng.choice([("", ""), ("", "a"), ("a", ""), ("", "/"), ("*", ""), ("**", ""), ("!", ""), ("[", ""),
                                     ("\\", ""), ("?", ""), ("**/", ""), ("/**", ""), ("a/**", "a"), ("**/a", "a")])
        elif r < 0.9:
            glob = _random_soup(rng, "aab/**?[]!\\-.", 9)
            path = _random_soup(rng, "aab//.-]", 7) if rng.random() < 0.8 else glob
        else:                                      # the same soup with multi-byte characters
            glob = _random_soup(rng, "a\u00e9\u672c/**??[]!\\-\u00e9", 9)
            path = _random_soup(rng, "a\u00e9\u672c//.\u00e9", 6) if rng.random() < 0.8 else glob
        out.append("m %s %s" % (_hx(glob), _hx(path)))
    return out


class Switches:
    """which repairs are in the tree under test (derived from the behaviour of the code by probe_switches):
    f17 = locality test in IgnoreRules::check (P17), f35 = global ignore patterns are final (P35),
    f36 = Pattern::new drops the last character, not the last byte (P36),
    f37 = the walkers ask about a directory with IgnoreRules::check_dir: a `dir/` line ignores the directory (P37)"""
    def __init__(self, f17, f35, f36, f37=False):
        self.f17, self.f35, self.f36, self.f37 = bool(f17), bool(f35), bool(f36), bool(f37)

    @property
    def s(self):
        return "%d%d%d%d" % (self.f17, self.f35, self.f36, self.f37)

    def with_f17(self, v=True):
        return Switches(v, self.f35, self.f36, self.f37)

    def as_dict(self):
        return {"fixed_P17": self.f17, "fixed_P35": self.f35, "fixed_P36": self.f36, "fixed_P37": self.f37}


def _u_line(rng):
    """a rule line about names with multi-byte characters"""
    a, b = rng.choice(_U_NAMES), rng.choice(_U_NAMES + _DIRS)
    return rng.choice(["", "", "!", "/", "\\!"]) + rng.choice([a, b + "/" + a, a + "/", "*." + a, a + "*", b + "/**/" + a, "**/" + a, a + "/" + b]) \
        + rng.choice(["", "", "", " ", "\u00a0", "\t", "\\ "])


def gen_pattern_cases(rng, n, sw):
    """`p` cases: Pattern::new on one line, Source::Global or Source::File"""
    out = []
    for i in range(n):
        line = _NONASCII[(i // 12) % len(_NONASCII)] if i % 12 == 7 else (_u_line(rng) if i % 12 == 3 else _rule_line(rng))
        if rng.random() < 0.03:
            line += rng.choice(["\r", " \r", "\n"])
        if rng.random() < 0.3:
            out.append("p g - %s %d" % (_hx(line), sw.f36))
        else:
            out.append("p f %s %s %d" % (_hx(rng.choice(_P_DIRS + ["donn\u00e9es", "a/\u65e5\u672c"])), _hx(line), sw.f36))
    return out


def gen_check_content(rng, i=0):
    """the text of one ignore file"""
    lines = [_rule_line(rng) for _ in range(rng.randint(0, 6))]
    if i % 8 == 3:
        lines.insert(rng.randint(0, len(lines)), _NONASCII[(i // 8) % len(_NONASCII)])
    if i % 8 == 5:
        lines.insert(rng.randint(0, len(lines)), _u_line(rng))
    eol = rng.choice(["\n", "\n", "\r\n", None])
    txt = ""
    for j, l in enumerate(lines):
        e = eol if eol is not None else rng.choice(["\n", "\r\n"])
        txt += l + (e if j < len(lines) - 1 or rng.random() < 0.7 else rng.choice(["", "", "\r"]))
    return txt


def gen_content_cases(rng, n, sw):
    """`c` cases: content_to_patterns on the text of an ignore file"""
    return ["c %s %s %d" % (_hx(rng.choice(_C_DIRS)), _hx(gen_check_content(rng, i)), sw.f36) for i in range(n)]


_K_GLOBALS = [".xvc\n.git\n", ".xvc\n.git\n", ".xvc\n.git\n", "", "*.tmp\n", ".git\n!keep\n", "foo*\n!foo.txt\n.xvc", "a/\n", "/a/b\n.git"]
_K_WHITE = ["!.git", "!.xvc", "!.*", "!*", "!.git/", "!**/.git", "!/.xvc", "!.???", "!a/.git", "!.git*"]


def gen_check_cases(rng, n, sw):
    """`k` cases: IgnoreRules::check with 1-4 rule lines from 1-3 ignore files; `K` cases: the same on top of
    global patterns (IgnoreRules::from_global_patterns), often about .xvc / .git and a whitelist line"""
    out = []
    f = sw.s
    for i in range(n):
        below = rng.choice(["", "a", "b", "a/b", "a[1]", "c", "a/b/c", "b/a", "a1", "donn\u00e9es"])
        comps = [c for c in below.split("/") if c] + ([rng.choice(_DIRS)] if rng.random() < 0.3 else []) + [rng.choice(_FILES)]
        with_globals = i % 5 < 2
        if with_globals and rng.random() < 0.6:
            comps[rng.randrange(len(comps)) if rng.random() < 0.3 else -1] = rng.choice([".git", ".xvc", ".git", ".xvc", ".gitx", ".xv", "a.git"])
        elif rng.random() < 0.1:
            comps[-1] = rng.choice(_U_NAMES)
        r = rng.random()
        if r < 0.88:
            path = "/r/" + "/".join(comps)
        elif r < 0.93:
            path = "/".join(comps)                                  # relative: used as given
        elif r < 0.96:
            path = rng.choice(["/r", "/r/", "/r/a", "/r/a/", "/r/a/b/", "/r/b/"])
        else:
            path = rng.choice(["/q/a", "/", "/ra/a", "/a/r/a", ""])  # outside the root: expect() panics
        if rng.random() < 0.06 and not path.endswith("/"):
            path += "/"
        dirs = rng.sample(_K_DIRS, rng.randint(1, 3))
        if rng.random() < 0.5 and below in _K_DIRS and below not in dirs:
            dirs[0] = below
        items = []
        for _ in range(rng.randint(1, 4)):
            d = rng.choice(dirs)
            if i % 40 == 11 and not items:
                line = rng.choice(_NONASCII)
            elif i % 40 == 13 and not items:
                line = _u_line(rng)
            elif with_globals and rng.random() < 0.35:
                line = rng.choice(_K_WHITE)
                if rng.random() < 0.6:
                    d = rng.choice(["", "", below])
            else:
                line = _rule_line(rng, comps if rng.random() < 0.7 else None)
            items.append("%s:%s" % (_hx(d), _hx(line)))
        if with_globals:
            out.append("K %s %s %s %s" % (f, _hx(rng.choice(_K_GLOBALS)), ",".join(items), _hx(path)))
        else:
            out.append("k %s %s %s" % (f, ",".join(items), _hx(path)))
    return out


def probe_fixed(globdrv_bin):
    """is the P17 locality fix present in the real IgnoreRules::check?  Decided by behaviour: the
    rule `foo.tmp` of b/.xvcignore must not touch /r/a/foo.tmp."""
    line = "k 0 %s:%s %s" % (_hx("b"), _hx("foo.tmp"), _hx("/r/a/foo.tmp"))
    rc, out = C.run_lines(globdrv_bin, [line])
    ans = out[0] if out else "<no output>"
    if ans == "Ignore":
        return False
    if ans == "NoMatch":
        return True
    raise RuntimeError("probe_fixed: globdrv answered %r (rc=%s)" % (ans, rc))


_P37_PROBES = [
    # root lines `build/` + `!*.keep`: is build entered and build/x.keep re-included?
    ([["f", ".xvcignore", "build/\n!*.keep\n"], ["d", "build", ""], ["f", "build/x.keep", ""], ["f", "build/y.bin", ""], ["f", "top.keep", ""]],
     "build", "build/x.keep", "top.keep"),
    # the line in a nested file, the directory two levels below it, the whitelist line by name in the root file
    ([["f", ".xvcignore", "!q.dat\n"], ["d", "a", ""], ["f", "a/.xvcignore", "out/\n"], ["d", "a/sub", ""], ["d", "a/sub/out", ""],
      ["f", "a/sub/out/q.dat", ""], ["f", "a/sub/r.dat", ""]],
     "a/sub/out", "a/sub/out/q.dat", "a/sub/r.dat"),
]


def probe_p37(walkdrv_bin, base):
    """is the repair of P37 in the real walkers?  Decided by behaviour, on walk_serial AND walk_parallel (4 runs each):
    with the repair neither the directory named by the `dir/` line nor the whitelisted file below it is reported,
    without it both are; a third path must be reported in either case.  Returns (f37, problem): when the answers
    are mixed (one walker repaired, the other not; the directory reported but not the file, ...) the probe is
    inconclusive -- `problem` says how, the caller records a correspondence failure, and the run goes on with the
    behaviour of walk_serial so that the oracles can still produce a failing input.  A probe that cannot be run at all
    raises."""
    res = real_walks(walkdrv_bin, base, [t for t, _, _, _ in _P37_PROBES], "", 4, shards=1)
    verdicts, serial_verdicts = [], []
    for (t, d, f, other), r in zip(_P37_PROBES, res):
        if "error" in r or r.get("panic") or "serial" not in r:
            raise RuntimeError("probe_switches: P37 probe failed: %r" % (r,))
        for s in [r["serial"]] + [p["set"] for p in r["par"]]:
            if other not in s:
                raise RuntimeError("probe_switches: P37 probe inconclusive: %s missing from %r" % (other, s))
            verdicts.append((d in s, f in s))
        serial_verdicts.append((d in r["serial"], f in r["serial"]))
    if all(v == (False, False) for v in verdicts):
        return True, None
    if all(v == (True, True) for v in verdicts):
        return False, None
    return (all(v == (False, False) for v in serial_verdicts),
            "probe_switches: P37 probe inconclusive -- a half-applied or different repair: (directory reported, whitelisted file below it reported) per walk "
            "[serial, parallel results of tree 1, then of tree 2]: %r" % (verdicts,))


def probe_switches(globdrv_bin, walkdrv_bin=None, base=None):
    """which repairs are in the code under test, decided by the behaviour of the real functions on every run
    (an answer that is neither the repaired nor the unrepaired one is a correspondence failure: RuntimeError):
      P37  see probe_p37 (the real walk_serial / walk_parallel on two small trees)
      P17  `foo.tmp` of b/.xvcignore must not touch /r/a/foo.tmp                  (IgnoreRules::check)
      P35  globals `.xvc\\n.git\\n` + root line `!.git`: /r/a/.git is Ignore, not Whitelist; asked twice, with the
           whitelist line coming from the root and from a/ , and for .xvc                 (IgnoreRules::check)
      P36  Pattern::new on a line whose last character is multi-byte returns a pattern, no panic
           (2-, 3- and 4-byte characters, Source::Global and Source::File)"""
    f17 = probe_fixed(globdrv_bin)
    g = _hx(".xvc\n.git\n")
    l35 = ["K 000 %s %s:%s %s" % (g, _hx(""), _hx("!.git"), _hx("/r/a/.git")),
           "K 000 %s %s:%s %s" % (g, _hx("a"), _hx("!.git"), _hx("/r/a/.git")),
           "K 000 %s %s:%s %s" % (g, _hx(""), _hx("!.*"), _hx("/r/.xvc"))]
    rc, out = C.run_lines(globdrv_bin, l35)
    if out == ["Whitelist"] * 3:
        f35 = False
    elif out == ["Ignore"] * 3:
        f35 = True
    else:
        raise RuntimeError("probe_switches: P35 probe inconclusive, globdrv answered %r (rc=%s)" % (out, rc))
    l36 = ["p g - %s" % _hx("\u00e9"), "p f %s %s" % (_hx("a"), _hx("donn\u00e9es/\u65e5\u672c")), "p g - %s" % _hx("!a/\U0001d11e")]
    rc, out = C.run_lines(globdrv_bin, l36)
    if out == ["PANIC"] * 3:
        f36 = False
    elif len(out) == 3 and all(o.startswith("glob=") for o in out):
        f36 = True
    else:
        raise RuntimeError("probe_switches: P36 probe inconclusive, globdrv answered %r (rc=%s)" % (out, rc))
    f37, problem = probe_p37(walkdrv_bin, base) if walkdrv_bin else (False, None)
    sw = Switches(f17, f35, f36, f37)
    sw.problems = [problem] if problem else []
    return sw


# ---- classification, shrinking, the diff -------------------------------------------------------------
def _layout(f):
    """(positions of plain hex fields, position of the rule-item field or None) of a split case line"""
    k = f[0]
    if k == "m":
        return [1, 2], None
    if k == "p":
        return [2, 3], None
    if k == "c":
        return [1, 2], None
    if k == "k":
        return [3], 2
    if k == "K":
        return [2, 4], 3
    return [], None


def _glob_case_info(line):
    """(kind, nontrivial) of a case line"""
    f = line.split(" ")
    if f[0] == "m":
        g = _unhx(f[1])
        return "m", any(c in g for c in "*?[\\!") and f[2] != "-"
    if f[0] == "p":
        l = _unhx(f[3]).strip()
        return "p", bool(l) and not l.startswith("#")
    if f[0] == "c":
        return "c", any(l.strip() and not l.startswith("#") for l in _unhx(f[2]).split("\n"))
    if f[0] in ("k", "K"):
        _, ri = _layout(f)
        p = _unhx(f[-1])
        s = p[2:] if p.startswith("/r/") else p
        nt = False
        for it in ([] if f[ri] == "-" else f[ri].split(",")):
            d = _unhx(it.split(":")[0]).strip("/")
            if d and not ("/" + s.lstrip("/")).startswith("/" + d + "/"):
                nt = True
            if f[0] == "K" and _unhx(it.split(":")[1]).startswith("!") and (".git" in s.split("/") or ".xvc" in s.split("/")):
                nt = True
        return f[0], nt
    return f[0], False


def _glob_answer_class(kind, ans):
    if ans in ("PANIC", "OOF", "NONUTF8") or ans.startswith("ERROR"):
        return ans.split(" ")[0]
    if kind == "p":
        return "pattern"
    if kind == "c":
        return "n=%d" % (0 if ans == "-" else ans.count(",") + 1)
    return ans


def _glob_shrink(line, differs):
    """greedy: drop rule items, then single characters of every string field, while differs(line)"""
    f = line.split(" ")
    hexpos, ri = _layout(f)

    def fields_of(fs):
        # positions of (field index, item index or None, part index or None) holding a hex string
        pos = [(i, None, None) for i in hexpos]
        if ri is not None and fs[ri] != "-":
            for j, it in enumerate(fs[ri].split(",")):
                pos += [(ri, j, 0), (ri, j, 1)]
        return pos

    def get(fs, p):
        i, j, k = p
        return fs[i] if j is None else fs[i].split(",")[j].split(":")[k]

    def put(fs, p, v):
        i, j, k = p
        fs = list(fs)
        if j is None:
            fs[i] = v
        else:
            its = [it.split(":") for it in fs[i].split(",")]
            its[j][k] = v
            fs[i] = ",".join(":".join(it) for it in its)
        return fs

    budget = [400]

    def ok(fs):
        if budget[0] <= 0:
            return False
        budget[0] -= 1
        return differs(" ".join(fs))

    if ri is not None and f[ri] != "-":
        its = f[ri].split(",")
        j = 0
        while j < len(its) and len(its) > 1:
            cand = its[:j] + its[j + 1:]
            if ok(f[:ri] + [",".join(cand)] + f[ri + 1:]):
                its = cand
            else:
                j += 1
        f = f[:ri] + [",".join(its)] + f[ri + 1:]
    changed = True
    while changed and budget[0] > 0:
        changed = False
        for p in fields_of(f):
            s = _unhx(get(f, p))
            i = 0
            while i < len(s):
                cand = put(f, p, _hx(s[:i] + s[i + 1:]))
                if ok(cand):
                    f, s, changed = cand, s[:i] + s[i + 1:], True
                else:
                    i += 1
    return " ".join(f)


def _glob_readable(line):
    f = line.split(" ")
    hexpos, ri = _layout(f)
    out = []
    for i, x in enumerate(f):
        if i in hexpos:
            out.append(repr(_unhx(x)))
        elif i == ri and x != "-":
            out.append(",".join("%r:%r" % tuple(_unhx(y) for y in it.split(":")) for it in x.split(",")))
        else:
            out.append(x)
    return " ".join(out)


def with_switches(line, sw):
    """a recorded glob-stage line (corpus, replay) with its flag fields set to the switches of the tree under test"""
    f = line.split(" ")
    if f[0] == "p":
        f = f[:4] + ["%d" % sw.f36]
    elif f[0] == "c":
        f = f[:3] + ["%d" % sw.f36]
    elif f[0] in ("k", "K"):
        f[1] = sw.s
    return " ".join(f)


def glob_correspondence(chk, model_bin, globdrv_bin, tier, sw):
    """runs globmodel and globdrv on the generated cases, diffs line by line; returns the distribution"""
    import time
    rng = chk.rng
    scale = 1 if tier == "quick" else 35
    lines = (gen_glob_cases(rng, 17500 * scale, 3000 * scale) + gen_pattern_cases(rng, 3000 * scale, sw)
             + gen_content_cases(rng, 1000 * scale, sw) + gen_check_cases(rng, 5000 * scale, sw))
    n_mal0, n_mal1 = 17500 * scale, 20500 * scale
    t0 = time.time()
    rc_m, out_m = C.run_lines(model_bin, lines, shards=8)
    t1 = time.time()
    rc_r, out_r = C.run_lines(globdrv_bin, lines, shards=8)
    t2 = time.time()
    kinds, answers, bad = {}, {}, []
    nontriv = {}
    for i, (line, om, orr) in enumerate(zip(lines, out_m, out_r)):
        kind, nt = _glob_case_info(line)
        if kind == "m" and n_mal0 <= i < n_mal1:
            kind, nt = "m_malformed", True
        kinds[kind] = kinds.get(kind, 0) + 1
        if nt:
            nontriv[kind] = nontriv.get(kind, 0) + 1
        a = "%s:%s" % (kind, _glob_answer_class(kind[0].lower(), orr))
        if kind[0] == "m" and any(ord(ch) > 127 for ch in _unhx(line.split(" ")[1]) + _unhx(line.split(" ")[2])):
            answers["m_multibyte:" + orr] = answers.get("m_multibyte:" + orr, 0) + 1
        answers[a] = answers.get(a, 0) + 1
        chk.count(line, nt)
        if om != orr:
            bad.append((line, om, orr))
    for i in (0, n_mal0, n_mal1, n_mal1 + 7, n_mal1 + 3000 * scale, len(lines) - 1, len(lines) - 4):
        chk.sample(_glob_readable(lines[i]), limit=12)
    if rc_m != 0 or rc_r != 0 or len(out_m) != len(lines) or len(out_r) != len(lines):
        chk.fail("correspondence", "a glob driver crashed or produced a different number of lines (model rc=%s n=%d, impl rc=%s n=%d, cases %d)" % (
            rc_m, len(out_m), rc_r, len(out_r), len(lines)), {"theorem_or_correspondence": GLOB_TIE}, name="glob", has_input=False)

    def differs(l):
        _, a = C.run_lines(model_bin, [l])
        _, b = C.run_lines(globdrv_bin, [l])
        return bool(a) and bool(b) and a[0] != b[0] and b[0] != "NONUTF8"

    seen = set()
    for line, om, orr in bad:
        if len(seen) >= 3:
            break
        shrunk = _glob_shrink(line, differs)
        if shrunk in seen:
            continue
        seen.add(shrunk)
        _, a = C.run_lines(model_bin, [shrunk])
        _, b = C.run_lines(globdrv_bin, [shrunk])
        om, orr = (a or ["<none>"])[0], (b or ["<none>"])[0]
        chk.fail("correspondence", "glob model and implementation differ on %s: model %s, implementation %s" % (
            _glob_readable(shrunk), om, orr),
            {"input": shrunk, "readable": _glob_readable(shrunk), "unshrunk": line, "model": om, "observed": orr,
             "theorem_or_correspondence": GLOB_TIE}, name="glob", has_input=False)
    pos = answers.get("m:1", 0)
    tot = pos + answers.get("m:0", 0)
    res = {"kinds": kinds, "nontrivial": nontriv, "answers": dict(sorted(answers.items())),
           "m_positive_ratio": round(pos / tot, 3) if tot else 0.0,
           "disagreements": len(bad), "switches": sw.as_dict(),
           "wall_model_s": round(t1 - t0, 1), "wall_impl_s": round(t2 - t1, 1)}
    C.log("glob correspondence: %d cases %s, m positive ratio %.3f, %d disagreement(s), model %.1fs impl %.1fs" % (
        len(lines), kinds, res["m_positive_ratio"], len(bad), t1 - t0, t2 - t1))
    return res


# =================================================================================================
# the walk part of the tie: walkdrv (real walk_serial / walk_parallel on materialised trees) vs
# globmodel (spec_walk, serial_walk, the parallel machine, the H2 trace validator), the oracle written
# from the property text, the CLI level, and the check entry point
# =================================================================================================
import json, os, re, time, importlib.util, subprocess

WALK_TIE = ("globmodel w/t (spec_walk, serial_walk, par_step machine, H2 trace replay) vs walkdrv "
            "(xvc_walker::walk_serial / walk_parallel on materialised trees)")
P17_CLASS = "nested-ignore-pattern-acts-outside-its-directory"
IGN = ".xvcignore"
THEOREMS_WALK = ("pattern_local / par_walk_deterministic(_outside_P17) / serial_eq_spec / serial_eq_parallel / ignored_dir_hides_subtree / "
                 "dir_pattern_hides_subtree(_fixed) / never_enters_xvc_git / par_walk_terminates")

TRUSTED = [
    "Coq 8.16.1 kernel, coqc; vm_compute in Examples and _refuted witnesses only; no native_compute",
    "axioms: none (Print Assumptions: Closed under the global context for every theorem of Props/C09.v)",
    "extraction: ExtrOcamlBasic only (Extract Inductive bool/option/unit/list/prod/sumbool/sumor; inlined andb/orb); ocamlfind ocamlopt 4.13.1; "
    "coq/extract/common.ml + glob_driver.ml (parsing/printing; check_string = the path string IgnoreRules::check builds; tree_of_entries = flat entry list -> model tree)",
    "translator gen/common_ignore.py (regular expressions over core/src/util/xvcignore.rs, core/src/lib.rs, walker/src/lib.rs, core/src/util/file.rs): "
    "COMMON_IGNORE_PATTERNS, XVC_DIR, XVCIGNORE_FILENAME, MAX_THREADS_PARALLEL_WALK, the callers' use of COMMON_IGNORE_PATTERNS; a construct it cannot find turns a boolean false and an Example of Props/C09.v fails",
    "correspondence: harness/src/bin/globdrv.rs (real fast_glob::glob_match 0.3.3, Pattern::new, content_to_patterns, IgnoreRules::check), "
    "harness/src/bin/walkdrv.rs (real walk_serial / walk_parallel on trees materialised in a scratch directory), hook H2 in walker/src/walk_parallel.rs "
    "(thread-level trace under a step mutex + seeded jitter, cfg xvc_verif only; when the hook is not in the tree the trace replay is skipped and said so in the evidence), "
    "vlib/c09.py generators, canonicaliser, oracle and class predicate",
    "modelled, not verified: fast-glob 0.3.3 glob_match_normal as Glob/Match.v (transliteration, differential-tested); walker/src/pattern.rs Pattern::new and "
    "walker/src/lib.rs content_to_patterns / update_ignore_rules as Glob/Pattern.v; walker/src/ignore_rules.rs (check, merge_with, add_patterns, from_global_patterns), "
    "walk_serial.rs, walk_parallel.rs as Walker/Model.v; rayon find_any is an `any`; read_dir order is the order of the children list (every order is covered by the theorems); "
    "no symlinks, no unreadable directories in generated trees",
    "strings are BYTE lists holding valid UTF-8, in the model and in fast-glob alike: fast_glob::glob_match works on glob.as_bytes() / path.as_bytes(), so `?` and a `[...]` class "
    "consume ONE BYTE (not one character: `?` does not match a two-byte character, `??` does), `*` runs over any bytes but '/', a class range compares byte values; Glob/Match.v "
    "does the same on list N, and the correspondence generator feeds both with names, globs and ignore lines holding 2-, 3- and 4-byte characters (about one case in five). "
    "The character tests of Pattern::new / content_to_patterns ('!', '/', '#', '\\', white space) are tests on UTF-8 bytes in the model: the ASCII ones cannot occur inside a multi-byte "
    "sequence, and trim_end / trim know the UTF-8 encodings of the 19 non-ASCII White_Space characters (Glob/Pattern.v ws_len). Byte strings that are not UTF-8 cannot reach these "
    "functions (&str); a file name that is not UTF-8 is outside the domain (to_string_lossy)",
    "switches fixed_P17 / fixed_P35 / fixed_P36 / fixed_P37 of the model are derived from the behaviour of the real IgnoreRules::check, Pattern::new, walk_serial and walk_parallel "
    "on every run (probe_switches: three probes for P35, three for P36, one for P17, two trees walked by both walkers for P37; an answer that is neither the repaired nor the unrepaired "
    "behaviour -- e.g. one walker repaired and the other not -- raises and fails the check); the class predicates follow the switches (a repaired class explains nothing)",
    "oracle_dirlines reads the `dir/` lines from the ignore files itself (gitignore grammar: `name/` names every directory of that name below the file's directory, `/a/name/` and `a/name/` "
    "the directory at that path; literal names only) and decides `not itself whitelisted` liberally with fnmatch (a directory a `!` line could match is not judged); it does not consult the model",
    "environment assumptions: the tree does not change during a walk; file names are non-empty and contain no '/' (wf_tree); SegQueue / RwLock / scoped threads behave as specified",
]


def _load_gen():
    spec = importlib.util.spec_from_file_location("common_ignore", os.path.join(C.ROOT, "gen", "common_ignore.py"))
    m = importlib.util.module_from_spec(spec); spec.loader.exec_module(m)
    return m


def install_findings_fallback():
    """known_findings.json is assembled by the coordinator from findings.d/; the fragment findings.d/C09.json
    is the source and can be newer (an entry added or flipped to fixed since the last assembly), so the open
    entries of this property are read from the fragment whenever it exists (same content otherwise)."""
    orig = C.known_findings

    def kf(prop):
        p = os.path.join(C.ROOT, "findings.d", prop + ".json")
        if os.path.exists(p):
            try:
                return [f for f in json.load(open(p)) if f.get("property") == prop and f.get("status") == "open"]
            except ValueError:
                pass
        return orig(prop)
    if getattr(orig, "_c09_fallback", False):
        return
    kf._c09_fallback = True
    C.known_findings = kf


def _run_cmd_lines(cmd, lines, env=None, shards=1, timeout=1200):
    """C.run_lines for a driver that takes arguments"""
    if shards <= 1 or len(lines) < 2 * shards:
        rc, out = C.sh(cmd, input="\n".join(lines) + "\n", timeout=timeout, env=env, stderr=subprocess.DEVNULL)
        outl = out.split("\n")
        if outl and outl[-1] == "":
            outl.pop()
        return rc, outl
    from concurrent.futures import ThreadPoolExecutor
    chunks = [lines[i::shards] for i in range(shards)]
    with ThreadPoolExecutor(shards) as ex:
        rs = list(ex.map(lambda c: _run_cmd_lines(cmd, c, env, 1, timeout), chunks))
    outl = [None] * len(lines)
    rc = 0
    for i, (r, o) in enumerate(rs):
        rc = rc or r
        for j, l in enumerate(o[:len(chunks[i])]):
            outl[i + j * shards] = l
    return rc, [l if l is not None else "<missing>" for l in outl]


# ---- trees -----------------------------------------------------------------------------------------
# an entry is [kind, path, content]: kind "d" | "f", path relative to the walk root, parents first
def enc_entries(entries):
    if not entries:
        return "-"
    return ",".join(k + _hx(p) + (":" + _hx(c) if c else "") for k, p, c in entries)


def parent_of(p):
    return p.rsplit("/", 1)[0] if "/" in p else ""


def under(p, d):
    """p is strictly below directory d ('' = the root)"""
    return d == "" or p.startswith(d + "/")


def reorder(entries, rank):
    """the same tree with the children of every directory sorted by rank(path) (stable)"""
    kids = {}
    for i, e in enumerate(entries):
        kids.setdefault(parent_of(e[1]), []).append((rank(e[1]), i, e))
    out = []

    def go(d):
        for _, _, e in sorted(kids.get(d, []), key=lambda x: (x[0], x[1])):
            out.append(e)
            if e[0] == "d":
                go(e[1])
    go("")
    return out


_W_DIRS = ["a", "b", "c", "ab", "a1", "sub"]
_W_FILES = ["foo.tmp", "a.txt", "b.txt", "foo", "c.tmp", "1", "x.dat", "a", "b.c", ".h"]


def _walk_line(rng, names, inside):
    """one ignore-file line from the grammar of the property (names, *.ext, dir/, /anchored, a/b, **/x,
    !negations) over names that exist in the tree; `inside`: paths below the file's own directory"""
    k = rng.random()
    if k < 0.12 or not names:
        return _rule_line(rng, rng.choice(inside).split("/") if inside and rng.random() < 0.7 else None)
    pool = inside if inside and rng.random() < 0.45 else names
    comps = rng.choice(pool).split("/")
    last = comps[-1]
    s = rng.random()
    if s < 0.34:
        body = last
    elif s < 0.50:
        body = "*." + last.rsplit(".", 1)[1] if "." in last[1:] else last[0] + "*"
    elif s < 0.60:
        body = rng.choice(comps) + "/"
    elif s < 0.70:
        body = "/" + rng.choice(comps)
    elif s < 0.80 and len(comps) > 1:
        body = comps[-2] + "/" + last
    elif s < 0.88:
        body = "**/" + last
    elif s < 0.93:
        body = "*"
    else:
        body = _seg(rng, last)
    if rng.random() < 0.16:
        body = "!" + body
    return body


_W_UDIRS = ["donn\u00e9es", "\u65e5\u672c", "\u00e9"]
_W_UFILES = ["\u00e9", "caf\u00e9", "\u65e5\u672c", "\u00e9.tmp", "\u65e5\u672c.txt", "\U0001d11e", "a\u00e9b"]
_SPECIAL_WHITE = ["!.git", "!.xvc", "!.*", "!*", "!.git/", "!**/.git", "!.xvc/", "!.???", "!.git*"]


_GLOB_META = set("*?[]\\{}")


def _append_ign(entries, d, lines):
    """appends rule lines to the ignore file of directory d (created when there is none)"""
    p = (d + "/" if d else "") + IGN
    old = next((e for e in entries if e[1] == p and e[0] == "f"), None)
    txt = "\n".join(lines) + "\n"
    if old:
        old[2] = old[2] + ("" if old[2].endswith("\n") or not old[2] else "\n") + txt
    else:
        entries.append(["f", p, txt])


def add_dirline_motif(rng, entries):
    """the motif of P37: a directory-only line (`name/`, sometimes the anchored forms `/a/name/`, `a/name/`) that
    names a directory D of the tree, written in the ignore file of one of D's proper ancestors, together with
    one or two whitelist lines that match CHILDREN of D by name or by `*.ext` (now and then the directory itself:
    `!name/`, `!*`), written in an ignore file at or above D or in D's own.  Returns D or None."""
    dirs = [e[1] for e in entries if e[0] == "d"]
    kids = {}
    for e in entries:
        if e[1].split("/")[-1] != IGN:
            kids.setdefault(parent_of(e[1]), []).append(e[1])
    cands = [d for d in dirs if kids.get(d) and not (set(d) & _GLOB_META) and not any(c in (".xvc", ".git") for c in d.split("/"))]
    if not cands:
        return None
    D = rng.choice(cands)
    comps = D.split("/")
    F = rng.choice([""] + ["/".join(comps[:i]) for i in range(1, len(comps))])
    rel = D[len(F) + 1:] if F else D
    k = rng.random()
    if k < 0.72:
        line = comps[-1] + "/"
    elif k < 0.86:
        line = "/" + rel + "/"
    else:
        line = rel + "/"
    _append_ign(entries, F, [line])
    wl = []
    for _ in range(rng.randint(1, 2)):
        c = rng.choice(kids[D]).split("/")[-1]
        r = rng.random()
        if r < 0.42 and not (set(c) & _GLOB_META):
            wl.append("!" + c)
        elif r < 0.80 and "." in c[1:]:
            wl.append("!*." + c.rsplit(".", 1)[1])
        elif r < 0.90:
            wl.append("!" + c[0] + "*")
        else:
            wl.append(rng.choice(["!*", "!" + comps[-1] + "/", "!" + comps[-1], "!**/" + c]))
    W = rng.choice([F, "", parent_of(D), D, F])
    _append_ign(entries, W, wl)
    return D


def gen_tree(rng, sw=None, max_nodes=30):
    """a tree of at most max_nodes entries with ignore files at every depth, .xvc / .git directories,
    (often) the same file names in sibling directories, in one tree out of three file and directory
    names with multi-byte characters, and in one out of six a whitelist line aimed at .xvc / .git.
    sw: the switches of the tree under test -- without the repair of P36 a line whose last character is
    multi-byte (the walk panics: known finding) is kept in one case out of six only, so that most
    trees still exercise the walkers; with the repair all are kept"""
    entries, dirs = [], [""]
    budget = [max_nodes - rng.randint(0, 12)]
    shared = rng.sample(_W_FILES, rng.randint(1, 3))
    uni = rng.random() < 0.34

    def fill(d, depth):
        nd = rng.randint(1, 4) if depth == 0 else (rng.randint(0, 2) if depth < 3 else 0)
        nf = rng.randint(0, 3) if depth == 0 else rng.randint(0, 4)
        pool = _W_DIRS + (["a[1]"] if rng.random() < 0.08 else []) + (_W_UDIRS if uni else [])
        subs = rng.sample(pool, min(nd, len(pool)))
        files = set(rng.sample(_W_FILES + (_W_UFILES if uni else []), min(nf, len(_W_FILES))))
        if depth > 0 and rng.random() < 0.6:
            files.add(rng.choice(shared))
        for f in sorted(files):
            if budget[0] <= 0 or f in subs:
                continue
            entries.append(["f", (d + "/" if d else "") + f, ""]); budget[0] -= 1
        for s in subs:
            if budget[0] <= 0:
                break
            p = (d + "/" if d else "") + s
            entries.append(["d", p, ""]); dirs.append(p); budget[0] -= 1
            fill(p, depth + 1)
    fill("", 0)
    # .xvc and .git: never reported, wherever they are
    for special in (".xvc", ".git"):
        if rng.random() < 0.4:
            d = rng.choice(dirs) if rng.random() < 0.5 else ""
            p = (d + "/" if d else "") + special
            entries.append(["d", p, ""])
            entries.append(["f", p + "/" + rng.choice(["HEAD", "config.toml", "foo.tmp"]), ""])
    names = [e[1] for e in entries]
    nested = [d for d in dirs if d]
    for d in dirs:
        if rng.random() < (0.45 if d == "" else 0.4):
            inside = [n[len(d) + 1 if d else 0:] for n in names if under(n, d)]
            lines = [_walk_line(rng, names, inside) for _ in range(rng.randint(1, 3))]
            if sw is not None and not sw.f36:
                lines = [l if not ends_multibyte(l.rstrip("/").rstrip()) or rng.random() < 0.17 else l + "*" for l in lines]
            eol = "\r\n" if rng.random() < 0.08 else "\n"
            txt = eol.join(lines) + (eol if rng.random() < 0.8 else "")
            entries.append(["f", (d + "/" if d else "") + IGN, txt])
    # the motif of P35: a whitelist line that matches the name .xvc / .git, in the root file or in a nested one
    if rng.random() < 0.17:
        d = rng.choice(dirs) if rng.random() < 0.4 else ""
        line = rng.choice(_SPECIAL_WHITE)
        old = next((e for e in entries if e[1] == (d + "/" if d else "") + IGN), None)
        if old:
            old[2] = old[2] + ("" if old[2].endswith("\n") or not old[2] else "\n") + line + "\n"
        else:
            entries.append(["f", (d + "/" if d else "") + IGN, line + "\n"])
        if not any(e[1].split("/")[-1] in (".git", ".xvc") for e in entries):
            q = (d + "/" if d else "") + rng.choice([".git", ".xvc"])
            entries.append(["d", q, ""]); entries.append(["f", q + "/HEAD", ""])
    # the motif of P17: a nested ignore file with a name-only line naming a file of another directory
    if nested and rng.random() < 0.5:
        d = rng.choice(nested)
        other = [n for n in names if not under(n, d) and n != d and "/" in n]
        if other:
            line = rng.choice(other).split("/")[-1]
            old = next((e for e in entries if e[1] == d + "/" + IGN), None)
            if old:
                old[2] = old[2] + ("" if old[2].endswith("\n") or not old[2] else "\n") + line + "\n"
            else:
                entries.append(["f", d + "/" + IGN, line + "\n"])
    # the motif of P37: a `dir/` line and whitelist lines for children of that directory
    if rng.random() < 0.42:
        add_dirline_motif(rng, entries)
    return reorder(entries, lambda p: 0)


def shuffle_tree(rng, entries):
    r = {e[1]: rng.random() for e in entries}
    return reorder(entries, lambda p: r[p])


def tree_is_nontrivial(entries):
    """rule of the evidence counter: an ignore file below the root with a name-only line (no '/' before
    its end) whose name pattern matches, by fnmatch, the last component of a path outside its directory"""
    import fnmatch
    names = [e[1] for e in entries]
    for k, p, c in entries:
        if k == "f" and p.endswith("/" + IGN):
            d = parent_of(p)
            for l in c.replace("\r", "").split("\n"):
                l = l.strip()
                if not l or l.startswith("#"):
                    continue
                body = l.lstrip("!").rstrip("/")
                if "/" in body or not body:
                    continue
                for n in names:
                    if not under(n, d) and n != d and fnmatch.fnmatchcase(n.split("/")[-1], body):
                        return True
    return False


# ---- running both sides ----------------------------------------------------------------------------
def real_walks(walkdrv, base, trees, globals_txt, reps, jitter_seed=None, trace=False, shards=8):
    lines = ["w %d %s %s" % (reps, _hx(globals_txt), enc_entries(t)) for t in trees]
    env = {}
    if jitter_seed is not None:
        env["XVC_VERIF_WALK_JITTER"] = str(jitter_seed)
    if trace:
        env["XVC_VERIF_WALK_TRACE"] = os.path.join(base, "h2trace")
    rc, out = _run_cmd_lines([walkdrv, base], lines, env=env, shards=shards)
    res = []
    for l in out:
        try:
            res.append(json.loads(l))
        except ValueError:
            res.append({"error": "unparsable walkdrv answer: %r" % l[:200]})
    while len(res) < len(trees):
        res.append({"error": "walkdrv produced no answer (rc=%s)" % rc})
    return res


def parse_model_walk(line):
    d = {}
    for part in line.split(";"):
        if "=" in part:
            k, v = part.split("=", 1)
            d[k] = v
    def paths(v):
        return [] if v in ("-", None) else [_unhx(x) for x in v.split(",")]
    if "spec" not in d:
        return {"error": line}
    return {"spec": paths(d.get("spec")), "serial": None if d.get("serial") == "OOF" else paths(d.get("serial")),
            "par": paths(d.get("par")), "final": d.get("final") == "1", "wf": d.get("wf") == "1", "panic": d.get("panic") == "1"}


def model_walks(model_bin, trees, globals_txt, sw, nthreads=8, scheds=None):
    lines = []
    for i, t in enumerate(trees):
        sched = scheds[i] if scheds else []
        lines.append("w %s %d %s %s %s %d" % (sw.s, nthreads, _hx(globals_txt), enc_entries(t),
                                              ",".join("%d.%d" % s for s in sched) or "-", 6 * len(t) + 12))
    rc, out = C.run_lines(model_bin, lines, shards=8)
    return [parse_model_walk(l) for l in out] + [{"error": "no answer"}] * (len(trees) - len(out))


def random_schedule(rng, nthreads, n):
    return [(rng.randrange(nthreads), rng.randrange(3) if rng.random() < 0.3 else 0) for _ in range(n)]


# ---- the class predicate of P17 ---------------------------------------------------------------------
def foreign_hits(model_bin, entries, paths):
    """for every path in `paths`: the (directory, line) pairs of nested ignore files (directory != root)
    whose glob -- as Pattern::new builds it -- matches the path or one of its ancestors although that
    path is not below the directory.  Decided with the extracted matcher (tied to the real one by the
    glob correspondence)."""
    rules = []
    for k, p, c in entries:
        if k == "f" and p.endswith("/" + IGN):
            rules.append((parent_of(p), c))
    if not rules or not paths:
        return {q: [] for q in paths}
    rc, out = C.run_lines(model_bin, ["c %s %s 1" % (_hx(d), _hx(c)) for d, c in rules])
    globs = []
    for (d, c), ans in zip(rules, out):
        if ans in ("-", "PANIC") or ans.startswith("ERROR"):
            continue
        for it in ans.split(","):
            globs.append((d, _unhx(it.split(":")[1])))
    queries, idx = [], []
    for q in paths:
        comps = q.split("/")
        for n in range(1, len(comps) + 1):
            a = "/".join(comps[:n])
            for d, g in globs:
                if not under(a, d):
                    queries.append("m %s %s" % (_hx(g), _hx("/" + a))); idx.append((q, d, g, a))
    res = {q: [] for q in paths}
    if queries:
        rc, out = C.run_lines(model_bin, queries, shards=4)
        for (q, d, g, a), ans in zip(idx, out):
            if ans == "1":
                res[q].append((d, g, a))
    return res


def p17_explains(model_bin, entries, ref, observed_sets):
    """the class predicate: every path on which an observed result differs from the reference (the walk
    under local semantics) is matched -- itself or an ancestor -- by a pattern of a nested ignore file
    it is not below"""
    diff = set()
    for s in observed_sets:
        diff |= set(s) ^ set(ref)
    if not diff:
        return False, {}
    hits = foreign_hits(model_bin, entries, sorted(diff))
    return all(hits[q] for q in diff), {q: ["%s/.xvcignore: %s matches /%s" % (d, g, a) for d, g, a in hits[q][:2]] for q in sorted(diff)}


WHITE_CLASS = "whitelist-line-reincludes-xvc-or-git"
P36_CLASS = "pattern-ends-in-multibyte-char"


def p36_explains(model_bin, entries, globals_txt, sw, extra_lines=()):
    """the class predicate of P36: some ignore file of the tree (or a global line, or one of extra_lines: the
    rules xvc itself writes for tracked paths) has a rule line whose last character -- after the '!' /
    blank / final-slash handling of Pattern::new -- is multi-byte (decided by the model: pattern_new_panics,
    Coq: Walker.Model.known_P36).  Follows the switch: empty with the repair of P36 in the tree."""
    if sw.f36:
        return False, {}
    texts = [(p, c) for k, p, c in entries if k == "f" and p.split("/")[-1] == IGN and c]
    texts += [("<global>", globals_txt)] + [("<written by xvc>", l + "\n") for l in extra_lines]
    rc, out = C.run_lines(model_bin, ["c - %s 0" % _hx(c) for _, c in texts])
    why = {p: "a rule line ends in a multi-byte character" for (p, c), ans in zip(texts, out) if ans == "PANIC"}
    return bool(why), why


def whitelist_explains(model_bin, entries, paths, sw):
    """the class predicate of P35: for every reported path with a .xvc / .git component, the directory of
    that name is matched by the glob of a whitelist ('!') line of some ignore file (with the locality fix:
    of an ignore file above it).  The class follows the switch: with the repair of P35 in the tree it is
    empty (Props/C09.v whitelist_class_empty_when_fixed) and nothing is explained."""
    if sw.f35:
        return False, {}
    fixed = sw.f17
    rules = [(parent_of(p), c) for k, p, c in entries if k == "f" and p.split("/")[-1] == IGN]
    if not rules or not paths:
        return False, {}
    rc, out = C.run_lines(model_bin, ["c %s %s 1" % (_hx(d), _hx(c)) for d, c in rules])
    wl = []
    for (d, c), ans in zip(rules, out):
        if ans in ("-", "PANIC") or ans.startswith("ERROR"):
            continue
        wl += [(d, _unhx(it.split(":")[1])) for it in ans.split(",") if it.startswith("w:")]
    why, ok = {}, True
    for q in paths:
        comps = q.split("/")
        j = min(i for i, c in enumerate(comps) if c in (".xvc", ".git"))
        a = "/".join(comps[:j + 1])
        cands = [(d, g) for d, g in wl if (under(a, d) or not fixed)]
        hit = None
        if cands:
            rc, o2 = C.run_lines(model_bin, ["m %s %s" % (_hx(g), _hx("/" + a)) for d, g in cands])
            hit = next(((d, g) for (d, g), ans in zip(cands, o2) if ans == "1"), None)
        if hit is None:
            ok = False
        else:
            why[q] = "%s/.xvcignore: whitelist glob %s matches /%s" % (hit[0], hit[1], a)
    return ok, why


# ---- the oracle, from the property text ---------------------------------------------------------------
def oracle_walk(entries, res):
    """judges one real result (walkdrv answer) against the property; returns a list of
    (category, what, detail); category: sets | special | structure"""
    bad = []
    if "error" in res or res.get("panic"):
        return [("structure", "the walk failed: %s" % (res.get("error") or "panic"), {})]
    serial = res["serial"]
    sets = [set(serial)] + [set(p["set"]) for p in res["par"]]
    names = {e[1] for e in entries}
    # same set on every run and in both walkers
    if len(res["par"]) > 1:
        a, b = res["par"][0]["set"], res["par"][1]["set"]
        bad.append(("sets", "walk_parallel returned different path sets on repeated runs of the same tree (%d distinct results)" % len(res["par"]),
                    {"only_in_one": sorted(set(a) ^ set(b))}))
    if res["par"] and set(serial) != set(res["par"][0]["set"]):
        bad.append(("sets", "walk_serial and walk_parallel returned different path sets",
                    {"serial_only": sorted(set(serial) - set(res["par"][0]["set"])), "parallel_only": sorted(set(res["par"][0]["set"]) - set(serial))}))
    if len(serial) != len(set(serial)) or res.get("dups"):
        bad.append(("structure", "a path was reported twice by one walk", {}))
    allp = set().union(*sets)
    special = sorted(q for q in allp if ".xvc" in q.split("/") or ".git" in q.split("/"))
    if special:
        bad.append(("special", "a path inside .xvc / .git was reported: %s" % special[0], {"paths": special}))
    ghosts = sorted(q for q in allp if q not in names)
    if ghosts:
        bad.append(("structure", "a path that does not exist in the tree was reported: %s" % ghosts[0], {"paths": ghosts}))
    for s in sets:
        orphan = sorted(q for q in s if "/" in q and parent_of(q) not in s)
        if orphan:
            bad.append(("structure", "a path below a directory that was not reported (ignored) was reported: %s" % orphan[0], {"paths": orphan}))
            break
    return bad


def rule_lines_of(content):
    """the rule lines of an ignore file as str::lines gives them (split at \\n, one trailing \\r dropped), trailing blanks
    and tabs removed; lines that end in other white space or in `\\ ` are left out (not judged)"""
    out = []
    for raw in content.split("\n"):
        l = raw[:-1] if raw.endswith("\r") else raw
        if l.endswith("\\ "):
            continue
        l = l.rstrip(" \t")
        if not l or l != l.rstrip() or l.startswith("#"):
            continue
        out.append(l)
    return out


def named_directories(entries):
    """{D: (F, line)}: the directories of the tree that a directory-only line names, read from the ignore files
    the way the gitignore grammar reads them (independent of the model):
      `name/`            in F/.xvcignore names every directory strictly below F whose last component is `name`
      `/a/name/`, `a/name/`  in F/.xvcignore name the directory F/a/name
    Only literal names (no glob metacharacter, not a negation, not a comment); for the anchored forms F itself must
    be free of glob metacharacters (xvc prefixes the glob with F unescaped)."""
    dirs = {e[1] for e in entries if e[0] == "d"}
    out = {}
    for k, p, c in entries:
        if k != "f" or p.split("/")[-1] != IGN or not c:
            continue
        F = parent_of(p)
        for l in rule_lines_of(c):
            if not l.endswith("/") or l[0] == "!":
                continue
            body = l[:-1]
            if not body or body.endswith("/") or (set(body) & _GLOB_META) or "//" in body:
                continue
            if "/" not in body:
                for D in dirs:
                    if under(D, F) and D != F and D.split("/")[-1] == body:
                        out.setdefault(D, (F, l))
            else:
                rel = body[1:] if body.startswith("/") else body
                if not rel or rel.startswith("/") or (set(F) & _GLOB_META):
                    continue
                D = (F + "/" if F else "") + rel
                if D in dirs:
                    out.setdefault(D, (F, l))
    return out


def maybe_whitelisted(entries, D):
    """could some whitelist (`!`) line of some ignore file of the tree match the directory D itself?  Liberal on
    purpose (fnmatch, whose `*` also crosses `/`, against every contiguous run of components of the path: the name,
    the path, its suffixes AND the names / paths of its ancestors, because xvc reads a directory-only whitelist line
    `!X/` as "everything below a directory X", which its own unit tests pin; a line with a class or an escape always
    counts): a directory this says yes to is not judged by oracle_dirlines."""
    import fnmatch
    comps = D.split("/")
    cands = {"/".join(comps[i:j]) for i in range(len(comps)) for j in range(i + 1, len(comps) + 1)}
    for k, p, c in entries:
        if k != "f" or p.split("/")[-1] != IGN or not c:
            continue
        for raw in c.replace("\r", "").split("\n"):
            l = raw.strip()
            if not l.startswith("!"):
                continue
            b = l.lstrip("!").strip().strip("/")
            if not b:
                continue
            if "[" in b or "\\" in b or ("?" in b and any(ord(ch) > 127 for ch in D)):
                return True          # (`?` is one BYTE for xvc, one character for fnmatch)
            for v in {b, b.replace("**/", ""), b.replace("**", "*"), b.replace("/**", ""), b.replace("**/", "").replace("/**", "")}:
                if v and any(fnmatch.fnmatchcase(x, v) for x in cands):
                    return True
    return False


def oracle_dirlines(entries, sets):
    """"an ignored directory hides everything beneath it", for the `dir/` grammar class, from the property text:
    a path strictly below a directory that an applicable directory-only line names, and that no whitelist line
    could match itself, is not reported -- whatever whitelist lines say about the descendants.
    Returns [(D, F, line, [offending paths])]."""
    named = named_directories(entries)
    if not named:
        return []
    allp = set().union(*[set(x) for x in sets]) if sets else set()
    out = []
    for D, (F, l) in sorted(named.items()):
        below = sorted(q for q in allp if under(q, D) and q != D)
        if below and not maybe_whitelisted(entries, D):
            out.append((D, F, l, below))
    return out


P37_CLASS = "dir-pattern-child-whitelisted"


def p37_explains(model_bin, entries, offending, sw):
    """the class predicate of P37: every reported path q below a named directory D got there because the child of D
    on the way to q is matched by the glob of a whitelist (`!`) line (of an ignore file above it when the locality
    fix is in the tree, or of D's own) while D itself is matched by none -- decided with the extracted matcher.
    Follows the switch: with the repair of P37 in the tree the class is empty (Props/C09.v dir_class_empty_when_fixed)
    and nothing is explained."""
    if sw.f37:
        return False, {}
    rules = [(parent_of(p), c) for k, p, c in entries if k == "f" and p.split("/")[-1] == IGN and c]
    rc, out = C.run_lines(model_bin, ["c %s %s 1" % (_hx(d), _hx(c)) for d, c in rules])
    wl = []
    for (d, c), ans in zip(rules, out):
        if ans in ("-", "PANIC") or ans.startswith("ERROR"):
            continue
        wl += [(d, _unhx(it.split(":")[1])) for it in ans.split(",") if it.startswith("w:")]
    why, ok = {}, bool(offending)
    for D, F, l, below in offending:
        for q in below:
            child = D + "/" + q[len(D) + 1:].split("/")[0]
            cands = [(d, g) for d, g in wl if under(child, d) or not sw.f17]
            qs = ["m %s %s" % (_hx(g), _hx("/" + child)) for d, g in cands] + ["m %s %s" % (_hx(g), _hx("/" + D)) for d, g in cands]
            o2 = C.run_lines(model_bin, qs)[1] if qs else []
            hit = next(((d, g) for (d, g), a in zip(cands, o2[:len(cands)]) if a == "1"), None)
            dhit = next(((d, g) for (d, g), a in zip(cands, o2[len(cands):]) if a == "1" and under(D, d)), None)
            if hit is None or dhit is not None:
                ok = False
            else:
                why[q] = "%s/.xvcignore: `%s` names %s; %s/.xvcignore: whitelist glob %s matches /%s" % (F, l, D, hit[0], hit[1], child)
    return ok, why


def _has_p37_shape(entries):
    """statistics only: a named, not whitelisted directory with a child whose name some `!` line matches (fnmatch)"""
    import fnmatch
    named = [D for D in named_directories(entries) if not maybe_whitelisted(entries, D)]
    if not named:
        return False
    wl = [l.strip().lstrip("!").strip("/") for k, p, c in entries if k == "f" and p.split("/")[-1] == IGN for l in c.split("\n") if l.strip().startswith("!")]
    wl = [w.split("/")[-1] for w in wl if w]
    for k, p, c in entries:
        if parent_of(p) in named and p.split("/")[-1] != IGN and any(fnmatch.fnmatchcase(p.split("/")[-1], w) for w in wl):
            return True
    return False


def locality_variants(entries, limit=2):
    """(directory, tree with that directory's ignore file emptied) for nested ignore files"""
    out = []
    for i, (k, p, c) in enumerate(entries):
        if k == "f" and p.endswith("/" + IGN) and c.strip():
            t = [list(e) for e in entries]
            t[i][2] = ""
            out.append((parent_of(p), t))
    return out[:limit]


def oracle_locality(d, res, res_variant):
    """a pattern written in d/.xvcignore affects only paths under d: emptying the file must not change
    what is reported outside d"""
    if any("error" in r or r.get("panic") for r in (res, res_variant)):
        return None
    def outside(s):
        return frozenset(q for q in s if not under(q, d))
    a = {outside(res["serial"])} | {outside(p["set"]) for p in res["par"]}
    b = {outside(res_variant["serial"])} | {outside(p["set"]) for p in res_variant["par"]}
    if a != b or len(a) != 1:
        x, y = sorted(a, key=sorted)[0], sorted(b, key=sorted)[-1]
        return ("the lines of %s/.xvcignore change what is reported outside %s/" % (d, d),
                {"changed_outside": sorted(set(x) ^ set(y)) or sorted(set().union(*a) ^ set().union(*b))})
    return None


# ---- H2 traces ---------------------------------------------------------------------------------------
def trace_model_line(entries, tr, globals_txt, sw, nthreads=8):
    """the `t` line for one logged run: paths made relative to the walk root (the path of the `start`
    event), children of every directory ordered as they were checked"""
    evs = tr["events"]
    if not evs or evs[0].get("ev") != "start":
        return None
    root = evs[0]["path"]

    def rel(p):
        if p == root:
            return ""
        return p[len(root) + 1:] if p.startswith(root + "/") else "<outside>" + p
    order, items = {}, []
    for e in evs:
        p = rel(e["path"]) if e["ev"] != "exit" else ""
        if e["ev"] == "check":
            order.setdefault(p, len(order))
            items.append("%d.check.%s.%s" % (e["th"], _hx(p), e["res"]))
        else:
            items.append("%d.%s.%s" % (e["th"], e["ev"], _hx(p)))
    t = reorder(entries, lambda p: order.get(p, 1 << 30))
    return "t %s %d %s %s %s" % (sw.s, nthreads, _hx(globals_txt), enc_entries(t), ",".join(items) or "-")


def interleaving_degree(tr):
    """number of adjacent event pairs performed by different threads (how interleaved the run was)"""
    ths = [e["th"] for e in tr["events"] if e["ev"] in ("merge", "check", "push")]
    return sum(1 for a, b in zip(ths, ths[1:]) if a != b)


# ---- one batch of trees: correspondence + oracle -----------------------------------------------------
def walk_batch(chk, bins, base, trees, globals_txt, sw, reps, jitter_seed, want_locality=True, label="gen"):
    """runs the real walkers and the model on the trees; returns (failures, stats).  A failure is a dict
    {kind: oracle|correspondence, what, tree, detail, klass}"""
    model_bin, walkdrv = bins["model"], bins["walkdrv"]
    rng = chk.rng
    fixed = sw.f17
    stats = {"trees": len(trees), "walks": 0, "traces": 0, "trace_events": 0, "interleaved_pairs": 0, "nondeterministic_trees": 0,
             "serial_ne_parallel_trees": 0, "locality_variants": 0}
    fails = []
    real = real_walks(walkdrv, base, trees, globals_txt, reps, jitter_seed, trace=True)
    # the model gets each tree with the children in the order walk_serial listed them
    ordered = []
    for t, r in zip(trees, real):
        pos = {p: i for i, p in enumerate(r.get("serial") or [])}
        ordered.append(reorder(t, lambda p: pos.get(p, 1 << 30)))
    scheds = [random_schedule(rng, 8, rng.randint(0, 5 * len(t))) for t in trees]
    m_now = model_walks(model_bin, ordered, globals_txt, sw, scheds=scheds)
    m_ref = m_now if fixed else model_walks(model_bin, ordered, globals_txt, sw.with_f17(True), scheds=scheds)
    variants, vidx = [], []
    if want_locality:
        for i, t in enumerate(trees):
            for d, tv in locality_variants(t):
                variants.append(tv); vidx.append((i, d))
    vres = real_walks(walkdrv, base, variants, globals_txt, max(2, reps // 3), jitter_seed, trace=False) if variants else []
    stats["locality_variants"] = len(variants)
    tlines, tmeta = [], []
    for i, (t, r, mn, mr) in enumerate(zip(trees, real, m_now, m_ref)):
        stats["walks"] += 1 + sum(p["n"] for p in r.get("par", []))
        nt = tree_is_nontrivial(t)
        chk.count(("walk", enc_entries(t)), nt)
        if "error" in mn or "error" in mr or not mn.get("wf", False):
            fails.append({"kind": "correspondence", "what": "the model rejected the tree: %r" % (mn,), "tree": t, "detail": {}, "klass": None})
            continue
        ref = mr["spec"]
        # a walk that dies in Pattern::new (finding P36): the model says when (walk_panics)
        real_panic = bool(r.get("panic"))
        if real_panic or mn.get("panic"):
            stats["panics"] = stats.get("panics", 0) + 1
            if real_panic and mn.get("panic"):
                ok, why = p36_explains(model_bin, t, globals_txt, sw)
                fails.append({"kind": "oracle", "what": "the walk panicked on a line of an ignore file (Pattern::new: byte index is not a char boundary)",
                              "tree": t, "detail": {"lines": why}, "klass": P36_CLASS if ok else None, "cat": "panic"})
            elif real_panic:
                fails.append({"kind": "oracle", "what": "the walk panicked (the model of Pattern::new does not)", "tree": t, "detail": r, "klass": None, "cat": "panic"})
            else:
                fails.append({"kind": "correspondence", "what": "the model says the walk panics in Pattern::new (walk_panics, fixed_P36=%s); the implementation returned a result" % sw.f36,
                              "tree": t, "detail": {}, "klass": None})
            continue
        obs = oracle_walk(t, r)
        if "serial" in r:
            observed_sets = [r["serial"]] + [p["set"] for p in r["par"]]
            if len(r["par"]) > 1:
                stats["nondeterministic_trees"] += 1
            if r["par"] and set(r["serial"]) != set(r["par"][0]["set"]):
                stats["serial_ne_parallel_trees"] += 1
            # the reference of the property: the walk in which every pattern acts only below its directory
            if any(set(s) != set(ref) for s in observed_sets):
                s = next(s for s in observed_sets if set(s) != set(ref))
                obs.append(("sets", "the reported paths differ from the walk in which every pattern acts only below the directory of its ignore file",
                            {"hidden": sorted(set(ref) - set(s)), "shown": sorted(set(s) - set(ref))}))
            so = [o for o in obs if o[0] == "sets"]
            if so:
                ok, why = p17_explains(model_bin, t, ref, observed_sets)
                fails.append({"kind": "oracle", "what": so[0][1], "tree": t, "detail": {"all": [o[1] for o in so], "first": so[0][2], "foreign_patterns": why},
                              "klass": P17_CLASS if ok else None, "cat": "sets"})
            # "an ignored directory hides everything beneath it" for the `dir/` lines, read from the ignore files themselves
            dl = oracle_dirlines(t, observed_sets)
            if named_directories(t):
                stats["trees_with_dir_lines"] = stats.get("trees_with_dir_lines", 0) + 1
            if dl:
                ok, why = p37_explains(model_bin, t, dl, sw)
                D, F, l, below = dl[0]
                fails.append({"kind": "oracle", "what": "a path below a directory named by a directory-only line was reported: `%s` in %s names %s/, yet %s is reported" % (
                                  l, (F + "/" if F else "") + IGN, D, below[0]),
                              "tree": t, "detail": {"named": [list(x) for x in dl], "explained_by": why}, "klass": P37_CLASS if ok else None, "cat": "dirline"})
            for cat, what, det in obs:
                if cat == "special":
                    ok, why = whitelist_explains(model_bin, t, det["paths"], sw)
                    fails.append({"kind": "oracle", "what": what, "tree": t, "detail": dict(det, whitelist_lines=why), "klass": WHITE_CLASS if ok else None, "cat": cat})
                elif cat == "structure":
                    fails.append({"kind": "oracle", "what": what, "tree": t, "detail": det, "klass": None, "cat": cat})
            # correspondence with the model of the code as it is now
            if mn["serial"] is None or r["serial"] != mn["serial"]:
                fails.append({"kind": "correspondence", "what": "walk_serial: the model (switches %s) lists %r, the implementation %r" % (sw.s, mn["serial"], r["serial"]),
                              "tree": ordered[i], "detail": {"model": mn["serial"], "observed": r["serial"]}, "klass": None})
            if not mn["final"]:
                fails.append({"kind": "correspondence", "what": "the model run did not reach a final configuration within its rounds", "tree": t, "detail": {}, "klass": None})
            if fixed:
                if sorted(mn["par"]) != sorted(ref):
                    fails.append({"kind": "proof", "what": "model: par_walk under a generated schedule differs from spec_walk although fixed_P17 = true (par_walk_deterministic)",
                                  "tree": ordered[i], "detail": {"schedule": scheds[i]}, "klass": None})
                for p in r["par"]:
                    if sorted(p["set"]) != sorted(ref):
                        fails.append({"kind": "correspondence", "what": "walk_parallel: implementation %r, model spec_walk %r" % (p["set"], sorted(ref)),
                                      "tree": t, "detail": {}, "klass": None})
                        break
            for tr in r.get("traces", []):
                l = trace_model_line(t, tr, globals_txt, sw)
                if l is None:
                    fails.append({"kind": "correspondence", "what": "H2 trace without a start event", "tree": t, "detail": {"events": tr["events"][:5]}, "klass": None})
                    continue
                tlines.append(l); tmeta.append((i, tr))
                stats["trace_events"] += len(tr["events"]); stats["interleaved_pairs"] += interleaving_degree(tr)
        else:
            fails.append({"kind": "oracle", "what": "the walk failed: %s" % (r.get("error") or "panic"), "tree": t, "detail": r, "klass": None})
    vref = model_walks(model_bin, variants, globals_txt, sw.with_f17(True)) if variants else []
    for (i, d), tv, rv, mv in zip(vidx, variants, vres, vref):
        o = oracle_locality(d, real[i], rv)
        if o:
            # the class predicate looks at both trees of the pair: the difference outside d must come from
            # results that differ from the local-semantics walk only on paths hit by foreign patterns
            ok, why = False, {}
            if "serial" in real[i] and "serial" in rv and "spec" in mv and "spec" in m_ref[i]:
                o1 = [real[i]["serial"]] + [p["set"] for p in real[i]["par"]]
                o2 = [rv["serial"]] + [p["set"] for p in rv["par"]]
                d1 = any(set(x) != set(m_ref[i]["spec"]) for x in o1)
                d2 = any(set(x) != set(mv["spec"]) for x in o2)
                ok1, why1 = p17_explains(model_bin, trees[i], m_ref[i]["spec"], o1) if d1 else (True, {})
                ok2, why2 = p17_explains(model_bin, tv, mv["spec"], o2) if d2 else (True, {})
                ok = (d1 or d2) and ok1 and ok2
                why = dict(why1); why.update(why2)
            fails.append({"kind": "oracle", "what": o[0], "tree": trees[i], "detail": dict(o[1], directory=d, foreign_patterns=why), "klass": P17_CLASS if ok else None,
                          "cat": "locality"})
    if tlines:
        rc, out = C.run_lines(model_bin, tlines, shards=8)
        for (i, tr), l, ans in zip(tmeta, tlines, out):
            stats["traces"] += 1
            f = ans.split(" ")
            if f[0] == "ok":
                got = [] if f[2] == "-" else sorted(_unhx(x) for x in f[2].split(","))
                if got != sorted(tr["set"]):
                    fails.append({"kind": "correspondence", "what": "H2 trace replayed by the model gives %r, the run reported %r" % (got, sorted(tr["set"])),
                                  "tree": trees[i], "detail": {"trace_line": l}, "klass": None})
            else:
                fails.append({"kind": "correspondence", "what": "H2 trace is not an execution of the parallel machine of the model: %s" % ans,
                              "tree": trees[i], "detail": {"trace_line": l, "events_accepted": f[1] if len(f) > 1 else "?"}, "klass": None})
    return fails, stats


def shrink_tree(entries, still_fails, budget=60):
    """drops entries (with their subtrees) and ignore-file lines while the failure persists"""
    cur = [list(e) for e in entries]
    n = [budget]

    def ok(t):
        if n[0] <= 0:
            return False
        n[0] -= 1
        return still_fails(t)
    changed = True
    while changed and n[0] > 0:
        changed = False
        i = len(cur) - 1
        while i >= 0 and n[0] > 0:
            p = cur[i][1]
            cand = [e for e in cur if e[1] != p and not e[1].startswith(p + "/")]
            if len(cand) < len(cur) and cand and ok(cand):
                cur, changed = cand, True
                i = min(i, len(cur)) - 1
            else:
                i -= 1
        for i, e in enumerate(cur):
            if e[0] == "f" and e[1].split("/")[-1] == IGN and e[2]:
                ls = e[2].replace("\r", "").split("\n")
                j = 0
                while j < len(ls) and len(ls) > 1 and n[0] > 0:
                    cand_ls = ls[:j] + ls[j + 1:]
                    cand = [list(x) for x in cur]
                    cand[i][2] = "\n".join(cand_ls)
                    if ok(cand):
                        ls, cur, changed = cand_ls, cand, True
                    else:
                        j += 1
    return cur


def report_walk_failures(chk, bins, base, fails, globals_txt, sw, reps, jitter_seed, stage="walk"):
    """shrinks the first failures of each (kind, class) and reports all of them"""
    shrunk_budget = {}
    reported = {}
    for f in fails:
        key = (f["kind"], f["klass"], f.get("cat"))
        # every failure outside the known classes is reported (at most 5 per kind); of a known class the
        # first one per oracle category is enough (the KNOWN-FINDING line is printed once per class)
        reported[key] = reported.get(key, 0) + 1
        if reported[key] > (1 if f["klass"] else 5):
            continue
        tree = f["tree"]
        if f["kind"] in ("oracle", "correspondence") and shrunk_budget.get(key, 0) < (1 if f["klass"] else 2):
            shrunk_budget[key] = shrunk_budget.get(key, 0) + 1
            loc = f.get("cat") == "locality"

            def still(t, f=f, loc=loc):
                fs, _ = walk_batch(_Quiet(chk), bins, base, [t], globals_txt, sw, reps, jitter_seed, want_locality=loc, label="shrink")
                return any(x["kind"] == f["kind"] and x["klass"] == f["klass"] and x.get("cat") == f.get("cat") for x in fs)
            small = shrink_tree(tree, still, budget=(25 if f["klass"] else 80))
            fs, _ = walk_batch(_Quiet(chk), bins, base, [small], globals_txt, sw, reps, jitter_seed, want_locality=loc, label="shrink")
            g = next((x for x in fs if x["kind"] == f["kind"] and x["klass"] == f["klass"] and x.get("cat") == f.get("cat")), None)
            if g is not None:
                f = dict(g, unshrunk=tree)
        kind = f["kind"]
        chk.fail(kind, f["what"], {"stage": stage, "input": {"globals": globals_txt, "entries": f["tree"], "reps": reps},
                                   "readable": ["%s %s%s" % (k, p, (" <- " + repr(c)) if c else "") for k, p, c in f["tree"]],
                                   "detail": f["detail"], "theorem_or_correspondence": (THEOREMS_WALK + "; " + WALK_TIE)},
                 name=stage, klass=f["klass"], has_input=(kind == "oracle"))


class _Quiet:
    """a Check stand-in for the re-runs of the shrinker: counts nothing"""
    def __init__(self, chk):
        self.rng = chk.rng

    def count(self, *a):
        pass


# ---- the CLI level -------------------------------------------------------------------------------------
def cli_case(xvc_bin, model_bin, entries, globals_txt, sw, repeats=3, track_dir=None):
    """`xvc file list`, `xvc check-ignore`, `xvc file track <dir>/` on a repository holding the tree.
    Returns (failures, n_invocations); a failure is (what, detail, observed_sets)."""
    from .xvc import XvcRepo
    fails, n = [], 0
    with XvcRepo(xvc_bin, prefix="c09cli", git=False) as repo:
        root_ign = repo.read(IGN) or b""
        tree = [list(e) for e in entries]
        mine = next((e for e in tree if e[1] == IGN), None)
        # `xvc init` wrote a root ignore file: the tree's own root lines are appended to it
        if mine is not None:
            mine[2] = root_ign.decode() + mine[2]
        else:
            tree.append(["f", IGN, root_ign.decode()])
        for k, p, c in tree:
            if k == "d":
                os.makedirs(repo.path(p), exist_ok=True)
            else:
                repo.write(p, c if c else "data of " + p)
        m = model_walks(model_bin, [tree], globals_txt, sw.with_f17(True))[0]
        if "error" in m:
            return [("model rejected the CLI tree", m, [])], 0
        ref = set(q for q in m["spec"])
        lists = []
        for _ in range(repeats):
            r = repo.xvc("file", "list", "--format", "{{name}}", "--no-summary", "--show-directories", "--show-dot-files")
            n += 1
            if r.failed:
                fails.append(("xvc file list failed: " + r.err[-200:], {}, [])); break
            lists.append(sorted(x.strip().rstrip("/") for x in r.out.split("\n") if x.strip()))
        if lists:
            def is_special(q):
                return ".xvc" in q.split("/") or ".git" in q.split("/")
            # paths inside .xvc / .git are one failure of their own (xvc itself writes into .xvc while it
            # lists, so they also differ from run to run); everything else is judged without them
            special = sorted({q for l in lists for q in l if is_special(q)})
            lists = [[q for q in l if not is_special(q)] for l in lists]
            if special:
                fails.append(("xvc file list printed a path inside .xvc / .git: %s" % special[0], {"special": special}, lists))
            if any(l != lists[0] for l in lists):
                fails.append(("xvc file list printed different path sets on repeated runs", {"runs": lists}, lists))
            dl = oracle_dirlines(tree, [lists[0]])
            if dl:
                D, F, l, below = dl[0]
                fails.append(("xvc file list printed a path below a directory named by a directory-only line: `%s` in %s names %s/, yet %s is listed" % (
                                  l, (F + "/" if F else "") + IGN, D, below[0]), {"dirline": [list(x) for x in dl]}, lists))
            exp = sorted(ref)
            if sorted(set(lists[0])) != exp:
                fails.append(("xvc file list differs from the walk in which every pattern acts only below the directory of its ignore file",
                              {"hidden": sorted(set(exp) - set(lists[0])), "shown": sorted(set(lists[0]) - set(exp))}, lists))
        # check-ignore: every path whose parent directory is visited; expected verdict = not in the reference set
        cand = [e[1] for e in tree if e[1] != IGN and (parent_of(e[1]) in ref or "/" not in e[1]) and ".xvc" not in e[1].split("/")]
        if cand:
            r = repo.xvc("check-ignore", *cand)
            n += 1
            got = {}
            for l in r.out.split("\n"):
                mm = re.match(r"\[(IGNORE|NO MATCH|WHITELIST)\] (.*)$", l.strip())
                if mm and mm.group(2).startswith(repo.root + "/"):
                    got[mm.group(2)[len(repo.root) + 1:]] = mm.group(1)
            wrong = sorted(q for q in cand if q in got and (got[q] == "IGNORE") != (q not in ref))
            if r.failed or len(got) != len(cand):
                fails.append(("xvc check-ignore failed or skipped paths: " + r.err[-200:], {"got": got}, []))
            elif wrong:
                obs = sorted(q for q in cand if got[q] != "IGNORE")
                fails.append(("xvc check-ignore disagrees with the ignore files above the path", {"paths": {q: got[q] for q in wrong}},
                              [sorted((ref - set(cand)) | set(obs))]))
        # explicit file targets: a file below an ignored directory, or inside a nested .git, stays hidden
        # also when it is named on the command line ("an ignored directory hides everything beneath it",
        # ".xvc and .git are never traversed")
        files_all = [e[1] for e in tree if e[0] == "f" and e[1].rsplit("/", 1)[-1] != IGN]
        hidden = [q for q in files_all if q not in ref and "/" in q and parent_of(q) not in ref][:3]
        # (without the repair of P35 a `!` line can re-include .git: such trees do not get the .git target then;
        # with the repair every tree gets it)
        has_white = (not sw.f35) and any(l.lstrip().startswith("!") for e in tree if e[0] == "f" and e[1].rsplit("/", 1)[-1] == IGN for l in e[2].split("\n"))
        host = None if has_white else next((e[1] for e in tree if e[0] == "d" and e[1] in ref), None)
        if host:
            repo.write(host + "/.git/config", "[core]\n")
            hidden.append(host + "/.git/config")
        if hidden:
            r = repo.xvc("file", "track", *hidden)
            n += 1
            r2 = repo.xvc("file", "list", "--format", "{{cst}} {{name}}", "--no-summary", "--show-dot-files")
            n += 1
            tracked = sorted(l.split(" ", 1)[1].strip() for l in r2.out.split("\n") if l.strip() and not l.startswith("X") and " " in l.strip())
            leaked = sorted(q for q in hidden if q in tracked)
            if leaked:
                fails.append(("xvc file track <explicit paths> recorded files below an ignored directory or inside .git: %s" % ", ".join(leaked),
                              {"targets": hidden, "tracked": leaked}, [sorted(ref | set(leaked))]))
            if host:
                try:
                    os.unlink(repo.path(host + "/.git/config")); os.rmdir(repo.path(host + "/.git"))
                except OSError:
                    pass
        if track_dir:
            r = repo.xvc("file", "track", track_dir + "/")
            n += 1
            r2 = repo.xvc("file", "list", "--format", "{{cst}} {{name}}", "--no-summary", "--show-dot-files")
            n += 1
            tracked = sorted(l.split(" ", 1)[1].strip() for l in r2.out.split("\n") if l.strip() and not l.startswith("X") and " " in l.strip())
            files = {e[1] for e in tree if e[0] == "f"}
            exp = sorted(q for q in ref if q in files and under(q, track_dir))
            if r.panicked or tracked != exp:
                fails.append(("xvc file track %s/ recorded a different set of files than the ignore files above them allow" % track_dir,
                              {"missing": sorted(set(exp) - set(tracked)), "extra": sorted(set(tracked) - set(exp)), "stderr": r.err[-200:]},
                              [sorted((ref - set(exp)) | set(tracked))]))
    return [(w, d, o, tree, sorted(ref)) for w, d, o in fails], n


def gen_cli_tree(rng, sw):
    """small trees with plain names (what a user would write); with the repair of P36 in the tree also names
    with multi-byte characters, with the repair of P35 also whitelist lines aimed at .xvc / .git (the inputs
    that were excluded while the findings were open)"""
    dirs = rng.sample(["a", "b", "c", "data", "sub"] + (["donn\u00e9es"] if sw.f36 else []), rng.randint(2, 4))
    files = ["foo.tmp", "a.txt", "x.dat", "notes.md"] + (["\u00e9", "\u65e5\u672c"] if sw.f36 else [])
    entries = [["f", "top.txt", ""]]
    for d in dirs:
        entries.append(["d", d, ""])
        for f in rng.sample(files, rng.randint(1, 3)):
            entries.append(["f", d + "/" + f, ""])
        if rng.random() < 0.4:
            entries.append(["d", d + "/inner", ""])
            entries.append(["f", d + "/inner/" + rng.choice(files), ""])
    names = [e[1] for e in entries]
    for d in [""] + dirs:
        if rng.random() < 0.55:
            inside = [n[len(d) + 1 if d else 0:] for n in names if under(n, d)]
            lines = [_walk_line(rng, names, inside) for _ in range(rng.randint(1, 2))]
            lines = [l for l in lines if all(32 < ord(ch) < 127 or (sw.f36 and ord(ch) > 160) for ch in l)] or ["*.tmp"]
            if sw.f35 and rng.random() < 0.35:
                lines.append(rng.choice(_SPECIAL_WHITE))
            entries.append(["f", (d + "/" if d else "") + IGN, "\n".join(lines) + "\n"])
    # the motif of P37: a `dir/` line and whitelist lines for children of that directory (one repository in two)
    if rng.random() < 0.5:
        add_dirline_motif(rng, entries)
    return reorder(entries, lambda p: 0)


def cli36_case(xvc_bin, inp):
    """P36 at the command line: tracking a path whose name ends in a multi-byte character (xvc writes the rule
    `/<name>` into .gitignore and reads it back through Pattern::new), or an ignore line that ends in one.
    Oracle from the property: every command ends without a panic, the targets are tracked, and a later
    command on another file still works.  Returns (failures [(what, detail)], invocations, rules written)."""
    from .xvc import XvcRepo
    fails, n = [], 0
    with XvcRepo(xvc_bin, prefix="c09p36", git=False) as repo:
        for f in inp["files"]:
            if "/" in f:
                os.makedirs(os.path.dirname(repo.path(f)), exist_ok=True)
            repo.write(f, "data of " + f)
        if inp.get("ignore"):
            repo.write(IGN, (repo.read(IGN) or b"").decode() + inp["ignore"])
        steps = [("file", "list", "--format", "{{name}}", "--no-summary"),
                 ("file", "track") + tuple(inp["track"]),
                 ("file", "list", "--format", "{{cst}} {{name}}", "--no-summary"),
                 ("file", "track", inp["later"]),
                 ("file", "list", "--format", "{{cst}} {{name}}", "--no-summary")]
        last = None
        for st in steps:
            r = repo.xvc(*st)
            n += 1
            if r.panicked:
                fails.append(("xvc %s panicked: %s" % (" ".join(st[:2]), (r.err + r.out).strip().split("\n")[-1][-160:]), {"step": list(st)}))
                break
            last = r
        else:
            tracked = sorted(l.split(" ", 1)[1].strip() for l in last.out.split("\n") if l.strip() and not l.startswith("X") and " " in l.strip())
            missing = [t for t in inp["track"] + [inp["later"]] if t not in tracked]
            if missing:
                fails.append(("xvc file track did not record %s" % ", ".join(missing), {"tracked": tracked}))
    return fails, n, ["/" + t for t in inp["track"]]


# ---- the check -------------------------------------------------------------------------------------------
def load_corpus():
    d = os.path.join(C.ROOT, "corpus", "C09")
    out = []
    if os.path.isdir(d):
        for f in sorted(os.listdir(d)):
            if f.endswith(".json"):
                r = json.load(open(os.path.join(d, f)))
                r.setdefault("name", f)
                out.append(r)
    return out


def report_cli(chk, model_bin, fails, globals_txt, sw, seen=None):
    seen = seen if seen is not None else {}
    for what, det, observed, tree, ref in fails:
        if "special" in det:
            ok, why = whitelist_explains(model_bin, tree, det["special"], sw)
            klass = WHITE_CLASS if ok else None
        elif "dirline" in det:
            ok, why = p37_explains(model_bin, tree, [tuple(x) for x in det["dirline"]], sw)
            klass = P37_CLASS if ok else None
        else:
            ok, why = p17_explains(model_bin, tree, ref, observed) if observed else (False, {})
            klass = P17_CLASS if ok else None
        # a known class is reported once per run and oracle; anything else always (at most 5 per oracle)
        key = (klass, what.split(":")[0][:60])
        seen[key] = seen.get(key, 0) + 1
        if seen[key] > (1 if klass else 5):
            continue
        chk.fail("oracle", what, {"stage": "cli", "input": {"globals": globals_txt, "entries": tree},
                                  "readable": ["%s %s%s" % (k, p, (" <- " + repr(c)) if c else "") for k, p, c in tree],
                                  "detail": dict(det, explained_by=why), "theorem_or_correspondence": THEOREMS_WALK + "; CLI level"},
                 name="cli", klass=klass)


def run_cli36(chk, xvc_bin, model_bin, inp, globals_txt, sw):
    fl, n, written = cli36_case(xvc_bin, inp)
    chk.count(("cli36", repr(sorted(inp.items()))), True)
    for what, det in fl[:1]:
        entries = [["f", IGN, inp.get("ignore", "")]]
        ok, why = p36_explains(model_bin, entries, globals_txt, sw, extra_lines=written)
        chk.fail("oracle", what, {"stage": "cli36", "input": inp, "detail": dict(det, explained_by=why),
                                  "theorem_or_correspondence": "walk_never_panics_fixed / walk_no_panic_outside_P36; CLI level"},
                 name="cli36", klass=P36_CLASS if ok else None)
    return len(fl), n


def run(chk, replay=None):
    tier, rng = chk.tier, chk.rng
    quick = tier == "quick"
    install_findings_fallback()
    chk.cov["trusted_base"] = TRUSTED
    chk.assumptions += ["the directory tree does not change while it is walked",
                        "file names are non-empty byte strings without '/' and distinct within a directory (wf_tree)",
                        "file names and ignore files are valid UTF-8 (a name that is not is shown to the patterns through to_string_lossy; an ignore file that is not makes the walk return an error)"]
    gen = _load_gen()
    notes = gen.main(C.REPO, C.ROOT)
    chk.cov["translator_notes"] = notes
    globals_txt = gen.rust_str_const(open(os.path.join(C.REPO, "core", "src", "util", "xvcignore.rs")).read(), "COMMON_IGNORE_PATTERNS")
    if globals_txt is None:
        globals_txt = ".xvc\n.git\n"
    t_proof = time.time()
    chk.proof()
    chk.cov["wall_proof_s"] = round(time.time() - t_proof, 1)
    model_bin = C.ensure_model("Glob", ["Glob", "Walker"])
    hb = C.ensure_harness(["globdrv", "walkdrv"])
    xvc_bin = C.ensure_xvc()
    bins = {"model": model_bin, "walkdrv": hb["walkdrv"], "globdrv": hb["globdrv"]}
    pbase = C.scratch_dir("c09probe")
    try:
        sw = probe_switches(hb["globdrv"], hb["walkdrv"], pbase)
    finally:
        C.rm_rf(pbase)
    for pr in getattr(sw, "problems", []):
        chk.fail("correspondence", pr, {"theorem_or_correspondence": "probe of the repair switch fixed_P37 on the real walk_serial / walk_parallel (Props/C09.v dir_pattern_hides_subtree_fixed)"},
                 name="probe", has_input=False)
    fixed = sw.f17
    chk.cov["fixed_P17_in_tree"] = fixed
    chk.cov["switches_in_tree"] = sw.as_dict()
    C.log("switches derived from the code: %s" % sw.as_dict())
    class_switch = {P17_CLASS: sw.f17, WHITE_CLASS: sw.f35, P36_CLASS: sw.f36, P37_CLASS: sw.f37}
    chk.cov["claimed_for_this_tree"] = [
        "pattern_local, par_walk_deterministic, serial_eq_spec, serial_eq_parallel (fixed_P17 = true)" if sw.f17 else
        "par_walk_deterministic_outside_P17, serial_eq_spec_outside_P17 (fixed_P17 = false: outside the class known_P17)",
        "never_enters_xvc_git_fixed, par_never_enters_xvc_git_fixed: the full statement, no class excluded (fixed_P35 = true; whitelist_class_empty_when_fixed)" if sw.f35 else
        "never_enters_xvc_git, par_never_enters_xvc_git outside the class whitelists_special (fixed_P35 = false; never_enters_xvc_git_refuted is the witness inside it)",
        "walk_never_panics_fixed: no walk dies in Pattern::new (fixed_P36 = true; P36_class_empty_when_fixed)" if sw.f36 else
        "walk_no_panic_outside_P36 (fixed_P36 = false; walk_panics_refuted is the witness inside the class known_P36)",
        "dir_pattern_hides_subtree_fixed / dir_pattern_hides_subtree / serial_ / par_dir_pattern_hides_subtree: a `name/` line hides the directory it names and everything "
        "beneath it whatever whitelist lines say about the descendants, every tree, every schedule, no class excluded (fixed_P37 = true; dir_class_empty_when_fixed)" if sw.f37 else
        "dir_pattern_hides_subtree_outside_P37: outside the class dir_leak (fixed_P37 = false; dir_pattern_hides_subtree_refuted is the witness inside it: `build/` + `!*.keep`)",
        "ignored_dir_hides_subtree, par_walk_terminates / progress / steps_bounded / stuck_is_final: for every setting of the switches"]
    base = C.scratch_dir("c09")
    dist = {}
    try:
        reps = 10 if quick else 30
        jitter = chk.seed * 1000 + 17
        # ---- replay of one recorded input
        if replay:
            inp = replay.get("input", replay)
            stage = replay.get("stage", "walk")
            if stage == "glob" or isinstance(inp, str):
                inp = with_switches(inp, sw)
                a = C.run_lines(model_bin, [inp])[1]; b = C.run_lines(hb["globdrv"], [inp])[1]
                chk.count(inp, True)
                if a != b:
                    chk.fail("correspondence", "glob model and implementation differ on %s: model %s, implementation %s" % (_glob_readable(inp), a, b),
                             {"stage": "glob", "input": inp, "theorem_or_correspondence": GLOB_TIE}, name="glob", has_input=False)
            elif stage == "cli":
                fs, n = cli_case(xvc_bin, model_bin, inp["entries"], inp.get("globals", globals_txt), sw, track_dir=inp.get("track_dir"))
                chk.count(("cli", enc_entries(inp["entries"])), True)
                report_cli(chk, model_bin, fs, globals_txt, sw)
            elif stage == "cli36":
                run_cli36(chk, xvc_bin, model_bin, inp, globals_txt, sw)
            else:
                fs, st = walk_batch(chk, bins, base, [inp["entries"]], inp.get("globals", globals_txt), sw, inp.get("reps", reps), jitter)
                report_walk_failures(chk, bins, base, fs, inp.get("globals", globals_txt), sw, inp.get("reps", reps), jitter)
                dist["walk"] = st
            chk.cov["distribution"] = dist
            chk.cov["rule"] = "replay of one recorded input"
            return chk

        # ---- corpus first
        corpus = load_corpus()
        ctrees = [c for c in corpus if c.get("stage", "walk") == "walk"]
        t0 = time.time()
        if ctrees:
            for c in ctrees:
                inp = c["input"]
                fs, st = walk_batch(chk, bins, base, [inp["entries"]], inp.get("globals", globals_txt), sw, inp.get("reps", reps), jitter)
                # a witness must show its finding as long as the repair of its class is not in the tree (and, with
                # the repair in the tree, must pass every oracle: a repaired class explains nothing)
                if c.get("expect_class") and not class_switch.get(c["expect_class"], False) and not any(f["klass"] == c["expect_class"] for f in fs):
                    chk.fail("correspondence", "corpus witness %s no longer shows its finding although no fix for it is in the tree" % c["name"],
                             {"stage": "walk", "input": inp, "theorem_or_correspondence": "findings.d/C09.json witness"}, name="corpus", has_input=False)
                report_walk_failures(chk, bins, base, fs, inp.get("globals", globals_txt), sw, inp.get("reps", reps), jitter)
        for c in [c for c in corpus if c.get("stage") == "glob"]:
            line = with_switches(c["input"], sw)
            a = C.run_lines(model_bin, [line])[1]; b = C.run_lines(hb["globdrv"], [line])[1]
            chk.count(line, True)
            if a != b:
                chk.fail("correspondence", "corpus %s: glob model %s, implementation %s" % (c["name"], a, b),
                         {"stage": "glob", "input": line, "theorem_or_correspondence": GLOB_TIE}, name="glob", has_input=False)
            if c.get("expect_answer_unfixed") and not class_switch.get(c.get("expect_class"), False) and b != [c["expect_answer_unfixed"]]:
                chk.fail("correspondence", "corpus witness %s no longer shows its finding (%r) although no fix for it is in the tree: %r" % (c["name"], c["expect_answer_unfixed"], b),
                         {"stage": "glob", "input": line, "theorem_or_correspondence": "findings.d/C09.json witness"}, name="corpus", has_input=False)
        ncli = 0
        for c in [c for c in corpus if c.get("stage") == "cli"]:
            inp = c["input"]
            fs, n = cli_case(xvc_bin, model_bin, inp["entries"], inp.get("globals", globals_txt), sw, track_dir=inp.get("track_dir"))
            ncli += n
            chk.count(("cli", enc_entries(inp["entries"])), True)
            report_cli(chk, model_bin, fs, globals_txt, sw)
        for c in [c for c in corpus if c.get("stage") == "cli36"]:
            nf, n = run_cli36(chk, xvc_bin, model_bin, c["input"], globals_txt, sw)
            ncli += n
            if not sw.f36 and not nf:
                chk.fail("correspondence", "corpus witness %s no longer shows its finding although no fix for it is in the tree" % c["name"],
                         {"stage": "cli36", "input": c["input"], "theorem_or_correspondence": "findings.d/C09.json witness"}, name="corpus", has_input=False)
        dist["corpus"] = {"cases": len(corpus), "wall_s": round(time.time() - t0, 1)}

        # ---- (1) glob correspondence
        dist["glob"] = glob_correspondence(chk, model_bin, hb["globdrv"], tier, sw)

        # ---- (2) walks
        t0 = time.time()
        ntrees = 180 if quick else 1800
        trees = [gen_tree(rng, sw) for _ in range(ntrees)]
        # the same tree in a second enumeration order of the entries (creation order on disk)
        trees += [shuffle_tree(rng, t) for t in trees[:ntrees // 6]]
        fs, st = walk_batch(chk, bins, base, trees, globals_txt, sw, reps, jitter)
        st["wall_s"] = round(time.time() - t0, 1)
        st["failures_by_class"] = {}
        for f in fs:
            k = "%s:%s:%s" % (f["kind"], f.get("cat", "-"), f["klass"])
            st["failures_by_class"][k] = st["failures_by_class"].get(k, 0) + 1
        st["nodes"] = {"min": min(len(t) for t in trees), "max": max(len(t) for t in trees), "mean": round(sum(len(t) for t in trees) / len(trees), 1)}
        st["ignore_files"] = sum(1 for t in trees for e in t if e[1].split("/")[-1] == IGN)
        st["nontrivial_trees"] = sum(1 for t in trees if tree_is_nontrivial(t))
        st["trees_with_multibyte_names"] = sum(1 for t in trees if any(ord(max(e[1])) > 127 for e in t))
        st["trees_with_multibyte_ignore_lines"] = sum(1 for t in trees if any(e[2] and ord(max(e[2])) > 127 for e in t if e[1].split("/")[-1] == IGN))
        st["trees_with_whitelist_on_special"] = sum(1 for t in trees if any(l.strip() in _SPECIAL_WHITE for e in t if e[1].split("/")[-1] == IGN for l in e[2].split("\n")))
        st["trees_with_dir_line_naming_a_directory"] = sum(1 for t in trees if named_directories(t))
        st["trees_with_named_directory_and_whitelisted_child"] = sum(1 for t in trees if _has_p37_shape(t))
        st["h2_present"] = st["traces"] > 0
        dist["walk"] = st
        chk.cov["traces_validated_against_impl"] = st["traces"]
        chk.cov["h2_present"] = st["h2_present"]
        if not st["h2_present"]:
            chk.cov["h2_note"] = ("hook H2 (repo-patches/50-hook-H2-walker-trace.diff) is not in the tree: no thread-level traces, no injected jitter; "
                                  "walk_parallel is compared through its results only (10 runs per tree)")
        C.log("walks: %d trees, %d real walks, %d H2 traces (%d events, %d cross-thread adjacent pairs), %d locality variants, %d failure(s) %s, %.1fs" % (
            st["trees"], st["walks"], st["traces"], st["trace_events"], st["interleaved_pairs"], st["locality_variants"], len(fs), st["failures_by_class"], st["wall_s"]))
        for t in (trees[0], trees[len(trees) // 2]):
            chk.sample("tree: " + "; ".join("%s%s" % (p, ("=" + repr(c)) if c else "") for k, p, c in t)[:600], limit=16)
        report_walk_failures(chk, bins, base, fs, globals_txt, sw, reps, jitter)

        # ---- (3) CLI level
        t0 = time.time()
        ncases = 8 if quick else 40
        from concurrent.futures import ThreadPoolExecutor
        ctrees = [gen_cli_tree(rng, sw) for _ in range(ncases)]
        tdirs = [rng.choice([e[1] for e in t if e[0] == "d" and "/" not in e[1]]) for t in ctrees]
        with ThreadPoolExecutor(4) as ex:
            rs = list(ex.map(lambda a: cli_case(xvc_bin, model_bin, a[0], globals_txt, sw, repeats=3 if quick else 5, track_dir=a[1]), zip(ctrees, tdirs)))
        nfail = 0
        seen_cli = {}
        for t, (fl, n) in zip(ctrees, rs):
            ncli += n
            chk.count(("cli", enc_entries(t)), tree_is_nontrivial(t))
            nfail += len(fl)
            report_cli(chk, model_bin, fl, globals_txt, sw, seen_cli)
        dist["cli"] = {"repositories": ncases, "xvc_invocations": ncli, "failures": nfail, "wall_s": round(time.time() - t0, 1)}
        C.log("cli: %d repositories, %d xvc invocations, %d failure(s), %.1fs" % (ncases, ncli, nfail, time.time() - t0))
    finally:
        C.rm_rf(base)
    chk.cov["distribution"] = dist
    chk.cov["rule"] = ("glob cases: distinct input lines whose glob has a metacharacter / whose rule is not blank or comment / whose check involves a pattern "
                       "from a directory the path is not below (as before); walk and CLI trees: non-trivial = the tree has an ignore file below the root with a "
                       "name-only line (no '/' before its end) whose name pattern matches the last component of a path outside its directory; distinct by the entry list")
    chk.cov["exhaustive"] = False
    return chk
