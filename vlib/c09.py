"""C09 — ignore rules: the glob part of the tie.
Correspondence globmodel (extracted Glob/Match.v, Glob/Pattern.v, Walker/Model.v check_str) vs globdrv
(the real fast_glob::glob_match, xvc_walker::Pattern::new, content_to_patterns, IgnoreRules::check)
on generated cases.  Line formats: see coq/extract/glob_driver.ml / harness/src/bin/globdrv.rs."""
from . import common as C

GLOB_TIE = "globmodel vs globdrv (fast_glob::glob_match / Pattern::new / IgnoreRules::check)"

# ---- the small world all generators draw from ------------------------------------------------------
_EXTS = ["txt", "tmp"]
_DIRS = ["a", "b", "c", "ab", "a1"]
_FILES = ["a", "b", "c", "ab", "a1", "1", "foo", ".a", "b.c", "a.txt", "b.txt", "1.txt", "foo.txt",
          "c.tmp", "foo.tmp", "a.b.tmp"]
_CLASSES = ["[a-c]", "[abc]", "[a-c1]", "[!a]", "[^b]", "[!a-b]", "[1f]", "[.a]", "[a-]", "[]a]", "[\\]a]", "[a\\-c]"]
_P_DIRS = ["", "", "a", "a/b", "a/b/", "/a", "b", "a[1]"]
# content_to_patterns builds its source as /r + dir: an absolute dir would leave the root
_C_DIRS = ["", "", "a", "a/b", "a/b/", "b", "a[1]"]
_K_DIRS = ["", "a", "b", "a/b", "a[1]"]
_NONASCII = ["\u00e9", "caf\u00e9", "a/\u00e9", "\u00e9/", "!\u00e9", "\u00e9 ", "\u00e9\t", "*.\u00e9", "/\u00e9", "\u00e9\\ ",
             "\u00e9a", "\u00e9.txt", "\u00e9/a", "a\u00e9b/", "!\u00e9a", "\u00e9*", "\\!\u00e9", "a/\u00e9/b", "\u00e9\u00e9"]


def _hx(s):
    return s.encode("utf-8").hex() if s else "-"


def _unhx(f):
    return "" if f == "-" else bytes.fromhex(f).decode("utf-8")


def _seg(rng, name=None):
    """one segment of a glob; when `name` is given the segment is built to match that name (mostly)"""
    n = name if name is not None else rng.choice(_FILES)
    k = rng.random()
    if k < 0.42:
        return n
    if k < 0.54:
        return "*." + (n.rsplit(".", 1)[1] if "." in n[1:] and name is not None else rng.choice(_EXTS))
    if k < 0.60:
        return "*"
    if k < 0.66:
        return n[0] + "*"
    if k < 0.70:
        return "*" + n[-1]
    if k < 0.77:
        i = rng.randrange(len(n))
        return n[:i] + "?" + n[i + 1:]
    if k < 0.86:
        return rng.choice(_CLASSES) + n[1:]
    if k < 0.89:
        return "?" * len(n)
    if k < 0.92:
        i = rng.randrange(len(n))
        return n[:i] + "\\" + n[i:]          # escaped ordinary character (\a \b \n \r \t are special)
    if k < 0.95:
        return "\\*" + n[1:]
    if k < 0.97:
        return n + "\\ "
    return n[0] + "*" + n[-1] + "*"


def _rule_line(rng, hint=None):
    """one line of an ignore file.  hint: path components the line should (mostly) be about"""
    k = rng.random()
    if k < 0.04:
        return "#" + rng.choice(["", " comment", "a.txt", "!a"])
    if k < 0.07:
        return rng.choice(["", " ", "  ", "\t"])
    if hint:
        last = hint[-1]
        prev = hint[-2] if len(hint) > 1 else rng.choice(_DIRS)
    else:
        last, prev = rng.choice(_FILES), rng.choice(_DIRS)
    s = rng.random()
    if s < 0.34:
        body = _seg(rng, last)
    elif s < 0.44:
        body = _seg(rng, rng.choice([last, prev])) + "/"
    elif s < 0.54:
        body = "/" + _seg(rng, rng.choice([last, hint[0] if hint else prev]))
    elif s < 0.66:
        body = _seg(rng, prev) + "/" + _seg(rng, last)
    elif s < 0.74:
        body = "**/" + _seg(rng, last)
    elif s < 0.82:
        body = _seg(rng, hint[0] if hint else prev) + "/**/" + _seg(rng, last)
    elif s < 0.87:
        body = _seg(rng, prev) + "/**"
    elif s < 0.91:
        body = "/" + _seg(rng, prev) + "/" + _seg(rng, last) + "/"
    elif s < 0.94:
        body = rng.choice(["*", "**", "/", "/*", "*/", "**/", "/**", "?", "*.*", ".*"])
    else:
        body = _seg(rng, prev) + "/" + _seg(rng) + "/" + _seg(rng, last)
    p = rng.random()
    if p < 0.14:
        body = "!" + body
    elif p < 0.18:
        body = "\\!" + body
    elif p < 0.20:
        body = "\\#" + body
    elif p < 0.21:
        body = "!!" + body
    t = rng.random()
    if t < 0.08:
        body += rng.choice([" ", "  ", "\t", " \t "])
    elif t < 0.11:
        body += "\\ "
    elif t < 0.12:
        body += "\\  "
    return body


def _comps(rng, maxdepth=5):
    d = rng.randint(1, maxdepth)
    return [rng.choice(_DIRS) for _ in range(d - 1)] + [rng.choice(_FILES)]


def _path(rng):
    s = "/".join(_comps(rng))
    if rng.random() < 0.8:
        s = "/" + s
    if rng.random() < 0.08:
        s += "/"
    return s


def _derived_glob(rng, comps):
    """a glob in the shapes Pattern::new produces, built from the path's own components"""
    n = len(comps)
    j = rng.randint(1, n)                    # the glob's body talks about the last j components
    body = [_seg(rng, c) for c in comps[n - j:]]
    if j > 2 and rng.random() < 0.3:         # a/**/b in the middle
        body = [body[0], "**", body[-1]]
    r = rng.random()
    if r < 0.15 and n - j > 0:               # dir-only: the body names a directory above the file
        j2 = rng.randint(1, n - 1)
        body = [_seg(rng, c) for c in comps[max(0, j2 - 2):j2]] + ["**"]
        j = n - max(0, j2 - 2)
    if rng.random() < 0.25:                  # near miss
        body[rng.randrange(len(body))] = _seg(rng)
    if rng.random() < 0.65:
        return "**/" + "/".join(body)
    k = rng.randint(0, n - j)
    pre = "".join("/" + c for c in comps[:k])
    return pre + "/**/" + "/".join(body)


_MALFORMED = [
    # unterminated class, '[' at the end
    "[a", "a[bc", "**/[a-", "[!a", "[^", "[", "a[", "**/a[", "[!", "**/[", "[a-c", "a[b/c]",
    # trailing backslash
    "a\\", "**/a\\", "[a\\", "\\", "[\\", "[a-\\", "**/\\",
    # ']' first in the class, dashes
    "[]a]", "[]]", "[!]a]", "[]-a]x", "[]", "[!]", "[a-]", "[a-]x", "[--a]", "[a-c-e]", "[-a]", "[c-a]", "[a-a]",
    "[!-]", "[a-\\]]", "[\\]-a]", "[/]", "a[/]b", "[!/]",
    # '**' glued to text, runs of stars
    "a**b", "a**", "**a", "a/**b", "a**/b", "/**a/b", "***", "****", "a/***/b", "***/a", "**/***", "*/**", "**/*",
    "**", "**/", "/**", "**/**", "/**/**/a", "a/**/**/**", "**/**/", "/**/", "a/**/", "**//a", "**/a/**/**", "/**/**",
    # leading '!'
    "!", "!!", "!a", "!!a", "!**/a", "!!**/a", "!*", "!**", "!/a", "!!!a", "![a]", "!?",
    # escapes
    "\\a", "\\b", "\\n", "\\\\", "\\[", "\\]", "[\\]]", "\\*", "\\?", "\\!a", "a\\/b", "\\**", "*\\*", "[\\a-\\c]",
    # '?', '*' and separators
    "a?b", "?", "??", "*", "a*b", "/", "//", "a//b", "?/", "/?", "*/", "/*", "*/*", "a/*/b", "a/?/b",
]
_MAL_PATHS = ["", "a", "/a", "a/b", "/a/b", "a//b", "/a//b", "//a", "a//", "/", "//", "a/", "a]", "]", "a[", "[a", "-",
              "a-", "!a", "!", "\\", "a\\", "\x08", "*", "a*b", "ab", "a/b/c", "/a/b/c", "aab", "a.b", "b", "c", "d", "^", "a/[/]b"]


def _random_soup(rng, alphabet, maxlen):
    return "".join(rng.choice(alphabet) for _ in range(rng.randint(0, maxlen)))


def gen_glob_cases(rng, n_valid, n_malformed):
    """`m` cases: n_valid well-formed (glob, path) pairs, then n_malformed from the malformed stream"""
    out = []
    for _ in range(n_valid):
        comps = _comps(rng)
        path = "/" + "/".join(comps)
        r = rng.random()
        if r < 0.55:
            glob = _derived_glob(rng, comps)
        elif r < 0.75:
            glob = "**/" + _rule_line(rng, comps).strip().lstrip("!/").rstrip("/")
        elif r < 0.85:
            glob = _rule_line(rng, comps)          # the raw line, not transformed
            if rng.random() < 0.5:
                path = path[1:]
        else:
            glob = "/" + "/".join([rng.choice(_DIRS) for _ in range(rng.randint(0, 2))] + ["**", _seg(rng)])
            path = _path(rng)
        if rng.random() < 0.05:
            path += "/"
        out.append("m %s %s" % (_hx(glob), _hx(path)))
    for i in range(n_malformed):
        r = rng.random()
        if r < 0.40:
            glob = rng.choice(_MALFORMED)
            q = rng.random()
            if q < 0.35:
                path = rng.choice(_MAL_PATHS)
            elif q < 0.5:
                path = glob                        # the glob text itself as the path
            elif q < 0.7:
                path = "".join(c for c in glob if c not in "[]!\\*?^") or "a"
            else:
                path = _path(rng)
        elif r < 0.55:
            glob = rng.choice(_MALFORMED) + rng.choice(["", "/", "/a", "a", "/**", "/*"])
            glob = rng.choice(["", "", "**/", "/a/**/", "a/", "!"]) + glob
            path = rng.choice(_MAL_PATHS + [_path(rng), _path(rng)])
        elif r < 0.62:
            glob, path = rng.choice([("", ""), ("", "a"), ("a", ""), ("", "/"), ("*", ""), ("**", ""), ("!", ""), ("[", ""),
                                     ("\\", ""), ("?", ""), ("**/", ""), ("/**", ""), ("a/**", "a"), ("**/a", "a")])
        else:
            glob = _random_soup(rng, "aab/**?[]!\\-.", 9)
            path = _random_soup(rng, "aab//.-]", 7) if rng.random() < 0.8 else glob
        out.append("m %s %s" % (_hx(glob), _hx(path)))
    return out


def gen_pattern_cases(rng, n):
    """`p` cases: Pattern::new on one line, Source::Global or Source::File"""
    out = []
    for i in range(n):
        line = _NONASCII[i % len(_NONASCII)] if i % 60 == 7 else _rule_line(rng)
        if rng.random() < 0.03:
            line += rng.choice(["\r", " \r", "\n"])
        if rng.random() < 0.3:
            out.append("p g - %s" % _hx(line))
        else:
            out.append("p f %s %s" % (_hx(rng.choice(_P_DIRS)), _hx(line)))
    return out


def gen_check_content(rng, i=0):
    """the text of one ignore file"""
    lines = [_rule_line(rng) for _ in range(rng.randint(0, 6))]
    if i % 25 == 3:
        lines.insert(rng.randint(0, len(lines)), _NONASCII[(i // 25) % len(_NONASCII)])
    eol = rng.choice(["\n", "\n", "\r\n", None])
    txt = ""
    for j, l in enumerate(lines):
        e = eol if eol is not None else rng.choice(["\n", "\r\n"])
        txt += l + (e if j < len(lines) - 1 or rng.random() < 0.7 else rng.choice(["", "", "\r"]))
    return txt


def gen_content_cases(rng, n):
    """`c` cases: content_to_patterns on the text of an ignore file"""
    return ["c %s %s" % (_hx(rng.choice(_C_DIRS)), _hx(gen_check_content(rng, i))) for i in range(n)]


def gen_check_cases(rng, n, fixed=False):
    """`k` cases: IgnoreRules::check with 1-4 rule lines from 1-3 ignore files"""
    out = []
    f = "1" if fixed else "0"
    for i in range(n):
        below = rng.choice(["", "a", "b", "a/b", "a[1]", "c", "a/b/c", "b/a", "a1"])
        comps = [c for c in below.split("/") if c] + ([rng.choice(_DIRS)] if rng.random() < 0.3 else []) + [rng.choice(_FILES)]
        r = rng.random()
        if r < 0.88:
            path = "/r/" + "/".join(comps)
        elif r < 0.93:
            path = "/".join(comps)                                  # relative: used as given
        elif r < 0.96:
            path = rng.choice(["/r", "/r/", "/r/a", "/r/a/", "/r/a/b/", "/r/b/"])
        else:
            path = rng.choice(["/q/a", "/", "/ra/a", "/a/r/a", ""])  # outside the root: expect() panics
        if rng.random() < 0.06 and not path.endswith("/"):
            path += "/"
        dirs = rng.sample(_K_DIRS, rng.randint(1, 3))
        if rng.random() < 0.5 and below in _K_DIRS and below not in dirs:
            dirs[0] = below
        items = []
        for _ in range(rng.randint(1, 4)):
            d = rng.choice(dirs)
            if i % 200 == 11 and not items:
                line = rng.choice(_NONASCII)
            else:
                line = _rule_line(rng, comps if rng.random() < 0.7 else None)
            items.append("%s:%s" % (_hx(d), _hx(line)))
        out.append("k %s %s %s" % (f, ",".join(items), _hx(path)))
    return out


def probe_fixed(globdrv_bin):
    """is the P17 locality fix present in the real IgnoreRules::check?  Decided by behaviour: the
    rule `foo.tmp` of b/.xvcignore must not touch /r/a/foo.tmp."""
    line = "k 0 %s:%s %s" % (_hx("b"), _hx("foo.tmp"), _hx("/r/a/foo.tmp"))
    rc, out = C.run_lines(globdrv_bin, [line])
    ans = out[0] if out else "<no output>"
    if ans == "Ignore":
        return False
    if ans == "NoMatch":
        return True
    raise RuntimeError("probe_fixed: globdrv answered %r (rc=%s)" % (ans, rc))


# ---- classification, shrinking, the diff -------------------------------------------------------------
def _glob_case_info(line):
    """(kind, nontrivial) of a case line"""
    f = line.split(" ")
    if f[0] == "m":
        g = _unhx(f[1])
        return "m", any(c in g for c in "*?[\\!") and f[2] != "-"
    if f[0] == "p":
        l = _unhx(f[3]).strip()
        return "p", bool(l) and not l.startswith("#")
    if f[0] == "c":
        return "c", any(l.strip() and not l.startswith("#") for l in _unhx(f[2]).split("\n"))
    if f[0] == "k":
        p = _unhx(f[3])
        s = p[2:] if p.startswith("/r/") else p
        nt = False
        for it in ([] if f[2] == "-" else f[2].split(",")):
            d = _unhx(it.split(":")[0]).strip("/")
            if d and not ("/" + s.lstrip("/")).startswith("/" + d + "/"):
                nt = True
        return "k", nt
    return f[0], False


def _glob_answer_class(kind, ans):
    if ans in ("PANIC", "OOF", "NONUTF8") or ans.startswith("ERROR"):
        return ans.split(" ")[0]
    if kind == "p":
        return "pattern"
    if kind == "c":
        return "n=%d" % (0 if ans == "-" else ans.count(",") + 1)
    return ans


def _glob_shrink(line, differs):
    """greedy: drop rule items, then single characters of every string field, while differs(line)"""
    f = line.split(" ")

    def fields_of(fs):
        # positions of (field index, item index or None, part index or None) holding a hex string
        pos = []
        for i, x in enumerate(fs):
            if i == 0 or (fs[0] in ("p", "k") and i == 1):
                continue
            if fs[0] == "k" and i == 2:
                if x != "-":
                    for j, it in enumerate(x.split(",")):
                        pos += [(i, j, 0), (i, j, 1)]
            else:
                pos.append((i, None, None))
        return pos

    def get(fs, p):
        i, j, k = p
        return fs[i] if j is None else fs[i].split(",")[j].split(":")[k]

    def put(fs, p, v):
        i, j, k = p
        fs = list(fs)
        if j is None:
            fs[i] = v
        else:
            its = [it.split(":") for it in fs[i].split(",")]
            its[j][k] = v
            fs[i] = ",".join(":".join(it) for it in its)
        return fs

    budget = [400]

    def ok(fs):
        if budget[0] <= 0:
            return False
        budget[0] -= 1
        return differs(" ".join(fs))

    if f[0] == "k" and f[2] != "-":
        its = f[2].split(",")
        j = 0
        while j < len(its) and len(its) > 1:
            cand = its[:j] + its[j + 1:]
            if ok(f[:2] + [",".join(cand)] + f[3:]):
                its = cand
            else:
                j += 1
        f = f[:2] + [",".join(its)] + f[3:]
    changed = True
    while changed and budget[0] > 0:
        changed = False
        for p in fields_of(f):
            s = _unhx(get(f, p))
            i = 0
            while i < len(s):
                cand = put(f, p, _hx(s[:i] + s[i + 1:]))
                if ok(cand):
                    f, s, changed = cand, s[:i] + s[i + 1:], True
                else:
                    i += 1
    return " ".join(f)


def _glob_readable(line):
    f = line.split(" ")
    out = []
    for i, x in enumerate(f):
        if i == 0 or (f[0] in ("p", "k") and i == 1):
            out.append(x)
        elif f[0] == "k" and i == 2 and x != "-":
            out.append(",".join("%r:%r" % tuple(_unhx(y) for y in it.split(":")) for it in x.split(",")))
        else:
            out.append(repr(_unhx(x)))
    return " ".join(out)


def glob_correspondence(chk, model_bin, globdrv_bin, tier, fixed):
    """runs globmodel and globdrv on the generated cases, diffs line by line; returns the distribution"""
    import time
    rng = chk.rng
    scale = 1 if tier == "quick" else 10
    lines = (gen_glob_cases(rng, 17500 * scale, 3000 * scale) + gen_pattern_cases(rng, 3000 * scale)
             + gen_content_cases(rng, 1000 * scale) + gen_check_cases(rng, 4000 * scale, fixed))
    n_mal0, n_mal1 = 17500 * scale, 20500 * scale
    t0 = time.time()
    rc_m, out_m = C.run_lines(model_bin, lines, shards=8)
    t1 = time.time()
    rc_r, out_r = C.run_lines(globdrv_bin, lines, shards=8)
    t2 = time.time()
    kinds, answers, bad = {}, {}, []
    nontriv = {}
    for i, (line, om, orr) in enumerate(zip(lines, out_m, out_r)):
        kind, nt = _glob_case_info(line)
        if kind == "m" and n_mal0 <= i < n_mal1:
            kind, nt = "m_malformed", True
        kinds[kind] = kinds.get(kind, 0) + 1
        if nt:
            nontriv[kind] = nontriv.get(kind, 0) + 1
        a = "%s:%s" % (kind, _glob_answer_class(kind[0], orr))
        answers[a] = answers.get(a, 0) + 1
        chk.count(line, nt)
        if om != orr:
            bad.append((line, om, orr))
    for i in (0, n_mal0, n_mal1, n_mal1 + 3000 * scale, len(lines) - 1):
        chk.sample(_glob_readable(lines[i]), limit=12)
    if rc_m != 0 or rc_r != 0 or len(out_m) != len(lines) or len(out_r) != len(lines):
        chk.fail("correspondence", "a glob driver crashed or produced a different number of lines (model rc=%s n=%d, impl rc=%s n=%d, cases %d)" % (
            rc_m, len(out_m), rc_r, len(out_r), len(lines)), {"theorem_or_correspondence": GLOB_TIE}, name="glob", has_input=False)

    def differs(l):
        _, a = C.run_lines(model_bin, [l])
        _, b = C.run_lines(globdrv_bin, [l])
        return bool(a) and bool(b) and a[0] != b[0] and b[0] != "NONUTF8"

    seen = set()
    for line, om, orr in bad:
        if len(seen) >= 3:
            break
        shrunk = _glob_shrink(line, differs)
        if shrunk in seen:
            continue
        seen.add(shrunk)
        _, a = C.run_lines(model_bin, [shrunk])
        _, b = C.run_lines(globdrv_bin, [shrunk])
        om, orr = (a or ["<none>"])[0], (b or ["<none>"])[0]
        chk.fail("correspondence", "glob model and implementation differ on %s: model %s, implementation %s" % (
            _glob_readable(shrunk), om, orr),
            {"input": shrunk, "readable": _glob_readable(shrunk), "unshrunk": line, "model": om, "observed": orr,
             "theorem_or_correspondence": GLOB_TIE}, name="glob", has_input=False)
    pos = answers.get("m:1", 0)
    tot = pos + answers.get("m:0", 0)
    res = {"kinds": kinds, "nontrivial": nontriv, "answers": dict(sorted(answers.items())),
           "m_positive_ratio": round(pos / tot, 3) if tot else 0.0,
           "disagreements": len(bad), "fixed_P17": bool(fixed),
           "wall_model_s": round(t1 - t0, 1), "wall_impl_s": round(t2 - t1, 1)}
    C.log("glob correspondence: %d cases %s, m positive ratio %.3f, %d disagreement(s), model %.1fs impl %.1fs" % (
        len(lines), kinds, res["m_positive_ratio"], len(bad), t1 - t0, t2 - t1))
    return res
